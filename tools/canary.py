"""Vacuity guard: every verified function gets an extra `ensures false`; each one must FAIL.
A canary that verifies means contradictory preconditions / assumptions (or no obligations generated)."""
import os
import gen
import runner


def run_canary(name, repo=None):
    os.environ.setdefault("VERIF_DUMMY", "1")
    try:
        r = runner.run_unit(name, repo, None, 30, "_canary", canary=True)
    except Exception as e:  # pragma: no cover
        return {"status": "inconclusive", "reason": "canary crashed: %r" % e}
    if r.status == "inconclusive":
        return {"status": "inconclusive", "reason": r.reason}
    expected = [f["fn"] for f in r.info["functions"] if f["mode"] == "verify" and f["sha256"]]
    failed = set()
    for fl in r.failures:
        if any(l.startswith("CANARY") for l in (fl.get("labels") or [])):
            failed.add(fl.get("fn"))
    passed = [f for f in expected if f not in failed]
    return {"status": "ok", "expected": len(expected), "failed": len(failed), "passed_canaries": passed}

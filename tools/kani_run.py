#!/usr/bin/env python3
"""kani_run.py [--repo /repo]: BOUNDED stand-in for functions outside the Verus subset.

Cuts the named repo functions out of the working tree by item path (no edits), writes them to
/verif/.work/kani/src/extracted.rs next to the committed harness file kani/src/lib.rs, runs `cargo kani` per harness,
and prints one JSON object: {harness: {"status": "SUCCESSFUL"|"FAILED"|"ERROR", "checks": n, "time_s": t}}.
Harnesses whose name ends in `_canary` are vacuity guards and must FAIL."""
import json, os, re, shutil, subprocess, sys, time
sys.path.insert(0, os.path.dirname(__file__))
import rstok

ROOT = os.path.dirname(os.path.dirname(os.path.abspath(__file__)))
EXTRACT = [("src/util.rs", "fn rnd_string")]
HARNESSES = ["rnd_string_len6", "rnd_string_len0_2", "rnd_string_canary"]
BOUNDS = {"rnd_string_len6": "length == 6 (the only length the repository passes), all generator choices; unwind 28 unrolls the 26-letter alphabet loop completely",
          "rnd_string_len0_2": "lengths 0, 1, 2; all generator choices"}


def run(repo="/repo"):
    work = os.path.join(ROOT, ".work", "kani")
    os.makedirs(os.path.join(work, "src"), exist_ok=True)
    os.makedirs(os.path.join(work, ".cargo"), exist_ok=True)
    for f in ["Cargo.toml", "src/lib.rs", ".cargo/config.toml"]:
        shutil.copy(os.path.join(ROOT, "kani", f), os.path.join(work, f))
    lock = os.path.join(repo, "Cargo.lock")
    if os.path.exists(lock) and not os.path.exists(os.path.join(work, "Cargo.lock")):
        shutil.copy(lock, os.path.join(work, "Cargo.lock"))
    out = ["// GENERATED on every run from the working tree of the repository; do not edit\n"]
    for file, key in EXTRACT:
        path = os.path.join(repo, file)
        sf = rstok.SourceFile(file, open(path).read())
        it = sf.find(key)
        out.append("// ---- %s :: %s\n%s\n" % (file, key, it.src[it.start:it.end]))
    open(os.path.join(work, "src", "extracted.rs"), "w").write("".join(out))
    env = dict(os.environ, CARGO_NET_OFFLINE="true", CARGO_TARGET_DIR=os.path.join(ROOT, ".cache", "kani_target"))
    res = {}
    for h in HARNESSES:
        t0 = time.time()
        try:
            p = subprocess.run(["cargo", "kani", "-Z", "stubbing", "--harness", "kani_h::" + h, "--exact"],
                               cwd=work, env=env, capture_output=True, text=True, timeout=1500)
            txt = p.stdout + p.stderr
        except subprocess.TimeoutExpired:
            res[h] = {"status": "ERROR", "why": "timeout", "time_s": round(time.time() - t0, 1)}
            continue
        m = re.search(r"VERIFICATION:- (SUCCESSFUL|FAILED)", txt)
        c = re.search(r"\*\* (\d+) of (\d+) failed", txt)
        res[h] = {"status": m.group(1) if m else "ERROR", "time_s": round(time.time() - t0, 1)}
        if c:
            res[h]["failed_checks"], res[h]["checks"] = int(c.group(1)), int(c.group(2))
        if not m:
            res[h]["why"] = txt[-1500:]
        if h in BOUNDS:
            res[h]["bound"] = BOUNDS[h]
        failing = re.findall(r"Failed Checks: (.*)", txt)
        if failing:
            res[h]["failed"] = failing[:5]
    return res


def main():
    repo = "/repo"
    if "--repo" in sys.argv:
        repo = sys.argv[sys.argv.index("--repo") + 1]
    print(json.dumps(run(repo), indent=1))


if __name__ == "__main__":
    main()

"""Run Verus on generated units, map diagnostics back to named obligations, classify."""
import json
import os
import re
import subprocess
import time

import gen
from rstok import LostAnchor
from normalise import Unsupported
from spec import SpecError

VERIF = gen.VERIF
WORK = os.path.join(VERIF, ".work")

SEMANTIC = [
    ("postcondition not satisfied", "postcondition"),
    ("precondition not satisfied", "precondition"),
    ("invariant not satisfied at end of loop body", "invariant"),
    ("invariant not satisfied before loop", "invariant"),
    ("possible arithmetic underflow/overflow", "overflow"),
    ("possible division by zero", "overflow"),
    ("assertion failed", "assertion"),
    ("decreases not satisfied", "termination"),
    ("could not prove termination", "termination"),
    ("loop invariant not satisfied", "invariant"),
    ("recommendation not met", "recommends"),
    ("unreachable", "unreachable"),
]
RESOURCE = ("Resource limit (rlimit) exceeded", "rlimit exceeded", "timed out", "while loop: Resource limit")

CHEAT_PATTERNS = [r"\bassume\s*\(", r"\badmit\s*\(", r"external_body", r"assume_specification", r"\baxiom\b",
                  r"#\[verifier::external", r"\bunimplemented!"]


class UnitResult:
    def __init__(self, name):
        self.name = name
        self.structural = []
        self.status = "ok"          # ok | failed | inconclusive
        self.reason = None
        self.failures = []          # dicts: kind, fn, labels, clause, message, rendered, line
        self.functions = {}         # verus function-breakdown name -> {success, ms, rlimit}
        self.obligations = []       # dicts: label(s), kind, fn, clause
        self.info = None
        self.verus_ms = 0
        self.smt_ms = 0
        self.cmd = None
        self.path = None
        self.scan = {}
        self.raw_err = ""


def scan_cheats(text, meta):
    """Mechanical scan for assumption-introducing constructs; report counts split by origin."""
    res = {"shim": {}, "contracts_or_code": {}}
    lines = text.split("\n")
    for i, l in enumerate(lines):
        code = l.split("//")[0]
        for p in CHEAT_PATTERNS:
            if re.search(p, code):
                m = meta[i] if i < len(meta) else None
                origin = "shim" if (m and m.get("shim")) else "contracts_or_code"
                res[origin][p] = res[origin].get(p, 0) + 1
    return res


def collect_obligations(meta):
    obs = []
    for i, m in enumerate(meta):
        if m and m.get("labels"):
            obs.append({"labels": m["labels"], "kind": m["kind"], "fn": m.get("fn"), "clause": m.get("clause"),
                        "line": i + 1})
    return obs


def run_unit(name, repo=None, seed=None, rlimit=60, extra_tag="", canary=False, findings=False):
    r = UnitResult(name)
    os.makedirs(WORK, exist_ok=True)
    try:
        text, meta, info, unit, specs = gen.generate(name, repo, canary=canary, findings=findings)
    except (LostAnchor, Unsupported, SpecError) as e:
        r.status, r.reason = "inconclusive", "%s: %s" % (type(e).__name__, e)
        return r
    r.info = info
    path = os.path.join(WORK, "%s%s.rs" % (name, extra_tag))
    with open(path, "w") as f:
        f.write(text)
    with open(path + ".meta.json", "w") as f:
        json.dump(meta, f)
    r.path = path
    r.scan = scan_cheats(text, meta)
    r.obligations = collect_obligations(meta)
    # structural obligations (decided by the extractor, not by Verus)
    r.structural = info.get("structural", [])
    for so in r.structural:
        r.obligations.append({"labels": so["labels"], "kind": "structural", "fn": so["item"], "clause": so["clause"], "line": 0})
    # trusted functions' ensures are assumptions, not obligations
    trusted_fns = {f["fn"] for f in info["functions"] if f["mode"] != "verify"}
    for o in r.obligations:
        o["assumed"] = (o["fn"] in trusted_fns) and o["kind"] != "structural"
    cmd = ["verus", path, "--output-json", "--time", "--rlimit", str(rlimit), "--multiple-errors", "20"]
    if seed is not None:
        cmd += ["--smt-option", "smt.random_seed=%d" % seed]
    cmd += ["--", "--error-format=json"]
    r.cmd = " ".join(cmd)
    t0 = time.time()
    try:
        p = subprocess.run(cmd, capture_output=True, text=True, timeout=1500, cwd=WORK)
    except subprocess.TimeoutExpired:
        r.status, r.reason = "inconclusive", "verus timed out"
        return r
    r.wall = time.time() - t0
    r.raw_err = p.stderr
    try:
        js = json.loads(p.stdout[p.stdout.index("{"):])
    except Exception:
        js = None
    diags = []
    for line in p.stderr.split("\n"):
        line = line.strip()
        if line.startswith("{"):
            try:
                diags.append(json.loads(line))
            except Exception:
                pass
    if js:
        tm = js.get("times-ms", {})
        r.verus_ms = tm.get("total", 0)
        smt = tm.get("smt", {})
        r.smt_ms = smt.get("smt-run", 0)
        for mod in smt.get("smt-run-module-times", []):
            for fb in mod.get("function-breakdown", []):
                r.functions[fb["function"]] = {"success": fb["success"], "ms": fb["time"], "rlimit": fb["rlimit"]}
    # line -> function map from meta
    def fn_at(line):
        m = meta[line - 1] if 0 < line <= len(meta) else None
        return m.get("fn") if m else None

    frontend_errors = []
    for d in diags:
        if d.get("level") != "error":
            continue
        msg = d.get("message", "")
        if msg.startswith("aborting due to"):
            continue
        kind = None
        for pat, k in SEMANTIC:
            if pat in msg:
                kind = k
                break
        if any(x in msg for x in RESOURCE):
            r.status = "inconclusive"
            r.reason = "resource limit: " + msg
            continue
        if kind is None:
            frontend_errors.append(d.get("rendered") or msg)
            continue
        spans = [s for s in d.get("spans", []) if s.get("file_name", "").endswith(os.path.basename(path))]
        prim = [s for s in spans if s.get("is_primary")]
        sec = [s for s in spans if not s.get("is_primary")]
        fail = {"kind": kind, "message": msg, "rendered": d.get("rendered", ""), "labels": [], "clause": None,
                "fn": None, "line": None}
        if kind == "postcondition":
            # primary = failed clause, secondary = end of function body
            cl = prim[0] if prim else None
            if cl:
                m = meta[cl["line_start"] - 1]
                if m:
                    fail["labels"] = m.get("labels") or []
                    fail["clause"] = m.get("clause")
                    fail["fn"] = m.get("fn")
                fail["line"] = cl["line_start"]
        elif kind == "precondition":
            site = prim[0] if prim else None
            if site:
                fail["fn"] = fn_at(site["line_start"])
                fail["line"] = site["line_start"]
                sm = meta[site["line_start"] - 1]
                fail["site_text"] = (site.get("text") or [{}])[0].get("text", "").strip()
            if sec:
                m = meta[sec[0]["line_start"] - 1]
                if m and m.get("labels"):
                    fail["labels"] = m["labels"]
                    fail["clause"] = m.get("clause")
                    fail["callee"] = m.get("fn")
                elif m and m.get("shim") and any(("vmc_req" in (t.get("text") or "")) or ("vm_req" in (t.get("text") or "")) for t in (sec[0].get("text") or [])) \
                        and "visit_mut" in fail.get("site_text", "") and "(self)" in fail.get("site_text", "").replace(" ", ""):
                    # precondition of an (assumed) traversal, reached with the visitor itself: the only clause of it that does
                    # not follow from the function's own preconditions is "no live temporary when a visit starts at the root
                    # context" - the obligation named *_root_without_live_temporaries of this function, if it has one
                    own = [l for mm in meta if mm and mm.get("fn") == fail["fn"] and mm.get("kind") == "requires"
                           for l in (mm.get("labels") or []) if l.endswith("root_without_live_temporaries")]
                    if own:
                        fail["labels"] = sorted(set(own))
                        fail["clause"] = "children are visited at the ROOT context while temporaries of the expression are live (every guard returning to the root resets the temporary counter)"
                        fail["callee"] = "traversal (assumed contract), precondition"
                    else:
                        fail["kind"] = "assertion"
                        fail["callee"] = "lemma (proof step)"
                elif m and (m.get("shim") or m.get("spec_text")) or (m is None):
                    # the failed precondition belongs to a lemma / proof function of the vocabulary: a failed proof
                    # step inside this function (everything after it was proved ASSUMING the lemma's conclusion)
                    fail["kind"] = "assertion"
                    fail["callee"] = "lemma (proof step)"
            else:
                fail["callee"] = "std/vstd function (panic-freedom precondition)"
        elif kind == "invariant":
            # at loop entry / end of body the primary span is the failed clause; at a `continue`/`break` the primary span is
            # that statement and the failed clause is a secondary span
            cl = None
            for sp in prim + sec:
                mm = meta[sp["line_start"] - 1]
                if mm and mm.get("labels"):
                    cl = sp
                    break
            if cl is None:
                cl = prim[0] if prim else None
            if cl:
                m = meta[cl["line_start"] - 1]
                if m:
                    fail["labels"] = m.get("labels") or []
                    fail["clause"] = m.get("clause")
                    fail["fn"] = m.get("fn")
                fail["line"] = cl["line_start"]
                if fail["fn"] is None:
                    fail["fn"] = fn_at(cl["line_start"])
        else:
            site = prim[0] if prim else None
            if site:
                fail["fn"] = fn_at(site["line_start"])
                fail["line"] = site["line_start"]
                fail["site_text"] = (site.get("text") or [{}])[0].get("text", "").strip()
        if kind == "recommends":
            continue
        # failures located in shim text are framework problems, not violations
        if fail["fn"] is None and kind != "postcondition":
            frontend_errors.append("failure outside extracted code: " + (d.get("rendered") or msg))
            continue
        r.failures.append(fail)
    if frontend_errors:
        r.status = "inconclusive"
        r.reason = "front-end error(s): " + frontend_errors[0][:2000]
        r.frontend_errors = frontend_errors
        return r
    if js is None:
        r.status, r.reason = "inconclusive", "verus produced no JSON (exit %s): %s" % (p.returncode, p.stderr[-800:])
        return r
    vr = js.get("verification-results", {})
    if vr.get("encountered-vir-error"):
        r.status, r.reason = "inconclusive", "VIR error: " + p.stderr[-1500:]
        return r
    if r.status == "inconclusive":
        return r
    for so in getattr(r, "structural", []):
        if not so["ok"]:
            r.failures.append({"kind": "structural", "message": "override set changed: have %s, want %s" % (so["have"], so["want"]),
                               "rendered": "structural obligation failed for %s: have %s, want %s" % (so["item"], so["have"], so["want"]),
                               "labels": so["labels"], "clause": so["clause"], "fn": so["item"], "line": 0, "needs_witness": True})
    if r.failures:
        r.status = "failed"
    elif not vr.get("success"):
        r.status, r.reason = "inconclusive", "verus reports failure without a mapped diagnostic: " + p.stderr[-1500:]
    return r

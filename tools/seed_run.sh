#!/bin/bash
# seed_run.sh <patch.diff> <PROP>...: apply a seeded change to the repository ($VERIF_REPO, default /repo), run the
# checks of this /verif tree, undo it
PATCH=$1; shift
V="$(cd "$(dirname "$0")/.." && pwd)"; R="${VERIF_REPO:-/repo}"
cd $R && git apply $PATCH || { echo "PATCH-DOES-NOT-APPLY"; exit 3; }
export VERIF_EVIDENCE_DIR=$V/.work/seed_evidence
for p in "$@"; do ( cd $V && bin/check $p --no-canary 2>&1 | grep -v "^$" | tail -6; echo "   -> exit=${PIPESTATUS[0]}" ); done
cd $R && git checkout -q -- . && git clean -fdq src
( cd $V && bin/setup >/dev/null 2>&1 )   # rebuild the replay binary from the restored tree

#!/bin/bash
# seed_run.sh <patch.diff> <PROP>...: apply a seeded change to /repo, run the checks, undo it
PATCH=$1; shift
cd /repo && git apply $PATCH || { echo "PATCH-DOES-NOT-APPLY"; exit 3; }
export VERIF_EVIDENCE_DIR=/verif/.work/seed_evidence
for p in "$@"; do ( cd /verif && bin/check $p --no-canary 2>&1 | grep -v "^$" | tail -6; echo "   -> exit=${PIPESTATUS[0]}" ); done
cd /repo && git checkout -q -- . && git clean -fdq src
( cd /verif && bin/setup >/dev/null 2>&1 )   # rebuild the replay binary from the restored tree

#!/bin/bash
# seed_confirm2.sh <PROP> <N> <SEEDDIR>: like seed_confirm.sh but with an explicit seed directory
P=$1; N=$2; S=$3/$N; WT=/tmp/wt_$P
cd $WT && git checkout -q -- . && git clean -fdq src && git checkout -q --detach $(git -C /repo rev-parse HEAD) || exit 9
git apply $S/patch.diff || { echo "PATCH-DOES-NOT-APPLY"; exit 3; }
R1=$(cargo test --offline 2>&1 | grep "test result" | head -1)
git apply $S/demo.diff || { echo "DEMO-DOES-NOT-APPLY"; git checkout -q -- .; git clean -fdq src; exit 4; }
R2=$(cargo test --offline 2>&1 | grep "test result" | head -1)
git apply -R $S/patch.diff
R3=$(cargo test --offline 2>&1 | grep "test result" | head -1)
git checkout -q -- . ; git clean -fdq src
echo "patch only : $R1"; echo "patch+demo : $R2"; echo "demo only  : $R3"

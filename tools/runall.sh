#!/bin/bash
# run every registered check on the unchanged tree (refreshes evidence/); prints one line per property
cd "$(dirname "$0")/.."
for p in $(python3 -c "import json;print(' '.join(c['property_id'] for c in json.load(open('MANIFEST.json'))['checks']))"); do
  bin/check $p --tier ${1:-quick} | grep -v "^KNOWN" | tail -1
done

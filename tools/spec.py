"""Parser for /verif/contracts/*.spec - contracts keyed by function path / loop ordinal / closure ordinal.

Format (line oriented; a directive starts with '@' in column 0, its text continues on the following
non-directive lines):

    @file src/telemetry.rs
    @verus                      # free Verus text (spec fns, proof fns) emitted before the file's items
      ...
    @end
    @item trait Telemetry       # container-level additions
    @head                       # text inserted at the start of the container body (spec fn decls)
      ...
    @end
    @fn trait Telemetry :: inc  # or `@fn fn free_function`
    @ret r                      # name of the return value (default r)
    @sig-extra where ...        # optional
    @trusted reason text        # emit as external_body (assumed contract on a repo function)
    @rules N1 N2                # override normalisation rule list
    @requires LABEL[,LABEL]: expr
    @ensures LABEL[,LABEL]: expr
    @fn-decreases expr
    @loop 1                     # subsequent @invariant/@decreases/@iter attach to loop #1 (after normalisation)
    @iter it
    @invariant LABEL: expr
    @decreases expr
    @closure 1                  # replacement header for closure #1 (after normalisation), e.g. |x: T| -> (r: U) ensures ...
      |x: &T| -> (r: bool) ensures r == ...
    @proof before "anchor"      # ghost text inserted on the line before the (unique) line containing anchor
      assert(...);
    @proof after "anchor"
    @proof end                  # at end of function body
    @endfn
"""
import re


class SpecError(Exception):
    pass


LABEL_RE = re.compile(r"^([A-Za-z0-9_.\-]+(?:,[A-Za-z0-9_.\-]+)*):\s")


class Clause:
    def __init__(self, kind, labels, text, where):
        self.kind, self.labels, self.text, self.where = kind, labels, text, where


class FnContract:
    def __init__(self, file, container, name):
        self.file, self.container, self.name = file, container, name
        self.ret = "r"
        self.requires, self.ensures = [], []
        self.findings = []
        self.assumed = []
        self.ascribe = []
        self.pin_labels = []
        self.n1_values = []
        self.fn_decreases = None
        self.loops = {}      # n -> {"invariants": [Clause], "decreases": str, "iter": str}
        self.closures = {}   # n -> header text
        self.proofs = []     # (where, anchor, text)
        self.trusted = None
        self.rules = None
        self.sig_extra = None
        self.no_unwind = False
        self.replace_params = None

    @property
    def key(self):
        return (self.file, self.container, self.name)


class ItemAdd:
    def __init__(self, file, key):
        self.file, self.key = file, key
        self.head = ""
        self.derive_add = []
        self.attrs = ""


class SpecFile:
    def __init__(self):
        self.fns = {}
        self.items = {}
        self.verus = {}   # file -> [text]

    def merge(self, other):
        for k, v in other.fns.items():
            if k in self.fns:
                raise SpecError("duplicate contract for %r" % (k,))
            self.fns[k] = v
        for k, v in other.items.items():
            if k in self.items:
                raise SpecError("duplicate item additions for %r" % (k,))
            self.items[k] = v
        for k, v in other.verus.items():
            self.verus.setdefault(k, []).extend(v)


def split_labels(text, where):
    m = LABEL_RE.match(text)
    if not m:
        raise SpecError("%s: clause without label: %r" % (where, text[:60]))
    return m.group(1).split(","), text[m.end():].strip()


def parse_spec(path):
    sf = SpecFile()
    lines = open(path).read().split("\n")
    # group into directives
    dirs = []
    cur = None
    for ln, line in enumerate(lines, 1):
        if line.startswith("@"):
            m = re.match(r"@([A-Za-z\-]+)\s*(.*)$", line)
            cur = [m.group(1), m.group(2), [], ln]
            dirs.append(cur)
        elif line.startswith("# ") or line.rstrip() == "#":
            continue
        else:
            if cur is None:
                if line.strip() and not line.startswith("#"):
                    raise SpecError("%s:%d: text outside directive" % (path, ln))
                continue
            cur[2].append(line)
    file = None
    fn = None
    item = None
    loop = None
    for name, arg, body, ln in dirs:
        where = "%s:%d" % (path, ln)
        text = (arg + "\n" + "\n".join(body)).strip()
        btext = "\n".join(body).rstrip()
        if name == "file":
            file, fn, item = arg.strip(), None, None
        elif name == "verus":
            sf.verus.setdefault(file, []).append(btext)
        elif name == "end" or name == "endfn":
            loop = None
            if name == "endfn":
                fn = None
        elif name == "item":
            item = ItemAdd(file, arg.strip())
            sf.items[(file, arg.strip())] = item
            fn = None
        elif name == "head":
            item.head += btext + "\n"
        elif name == "derive-add":
            item.derive_add += arg.split()
        elif name == "attrs":
            item.attrs += arg.strip() + "\n"
        elif name == "fn":
            a = arg.strip()
            if "::" in a:
                cont, nm = [x.strip() for x in a.rsplit("::", 1)]
            else:
                cont, nm = None, a
            nm = nm[3:].strip() if nm.startswith("fn ") else nm
            fn = FnContract(file, cont, nm)
            if fn.key in sf.fns:
                raise SpecError("%s: duplicate @fn %s" % (where, a))
            sf.fns[fn.key] = fn
            loop = None
            item = None
        elif fn is None:
            raise SpecError("%s: @%s outside @fn" % (where, name))
        elif name == "ret":
            fn.ret = arg.strip()
        elif name == "trusted":
            fn.trusted = text or "trusted"
        elif name == "value-receiver":
            fn.n1_values += arg.split()
        elif name == "pin-labels":
            fn.pin_labels = arg.split()
        elif name == "rules":
            fn.rules = arg.split()
        elif name == "sig-extra":
            fn.sig_extra = text
        elif name == "requires":
            labels, t = split_labels(text, where)
            fn.requires.append(Clause("requires", labels, t, where))
        elif name == "ensures":
            labels, t = split_labels(text, where)
            fn.ensures.append(Clause("ensures", labels, t, where))
        elif name == "assume":
            # a clause importers may rely on although the verifying unit cannot prove it (listed as an assumption)
            labels, t = split_labels(text, where)
            fn.assumed.append(Clause("assumed", labels, t, where))
        elif name == "finding":
            labels, t = split_labels(text, where)
            fn.findings.append(Clause("finding", labels, t, where))
        elif name == "fn-decreases":
            fn.fn_decreases = text
        elif name == "loop":
            loop = int(arg.strip())
            fn.loops.setdefault(loop, {"invariants": [], "decreases": None, "iter": None, "end_proof": None})
        elif name == "loop-end":
            fn.loops[loop]["end_proof"] = btext
        elif name == "iter":
            fn.loops[loop]["iter"] = arg.strip()
        elif name == "invariant":
            labels, t = split_labels(text, where)
            fn.loops[loop]["invariants"].append(Clause("invariant", labels, t, where))
        elif name == "decreases":
            fn.loops[loop]["decreases"] = text
        elif name == "ascribe":
            # type ascription for a local introduced by a normalisation rule (`let mut __f = None;`): annotation only
            fn.ascribe.append(arg.strip())
        elif name == "closure":
            fn.closures[int(arg.strip())] = btext.strip()
        elif name in ("proof", "ghost"):
            m = re.match(r'(before|after-block|after)\s+"(.*)"\s*$', arg.strip())
            if m and name == "ghost":
                fn.proofs.append(("raw-" + m.group(1), m.group(2), btext))
            elif m:
                fn.proofs.append((m.group(1), m.group(2), btext))
            elif arg.strip() in ("end", "start"):
                fn.proofs.append((arg.strip(), None, btext))
            else:
                raise SpecError("%s: bad @proof" % where)
        else:
            raise SpecError("%s: unknown directive @%s" % (where, name))
    return sf

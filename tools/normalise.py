"""Syntactic normalisation rules N1..N8 (DESIGN.md section 3.2) applied to extracted function bodies.

Every rule is local, purely textual over the token structure, and every application is
recorded.  If a rule's applicability check fails, LostAnchor/Unsupported is raised and the
whole check ends INCONCLUSIVE (exit 2) - never a violation.
"""
import re
from rstok import mask, match_close, skip_ws, LostAnchor, OPEN


class Unsupported(Exception):
    pass


LOG_MACROS = ("debug", "error", "info", "warn", "trace")


def strip_logging(body):
    """Drop `debug!(..);`-style logging statements (they have no effect on program state)."""
    n = 0
    while True:
        m = mask(body)
        hit = re.search(r"(?<![A-Za-z0-9_:])(?:log::)?(%s)!\s*\(" % "|".join(LOG_MACROS), m)
        if not hit:
            return body, n
        close = match_close(m, hit.end() - 1)
        end = close + 1
        k = skip_ws(m, end)
        if k < len(m) and m[k] == ";":
            end = k + 1
        body = body[:hit.start()] + body[end:]
        n += 1


def _match_open(m, close):
    """m[close] is a closing bracket; return the offset of its opening partner."""
    depth, k = 0, close
    while k >= 0:
        if m[k] in ")]}":
            depth += 1
        elif m[k] in "([{":
            depth -= 1
            if depth == 0:
                return k
        k -= 1
    raise LostAnchor("unbalanced brackets (backward) at %d" % close)


def _isid(c):
    return c.isalnum() or c == "_"


def _recv_start(m, dot):
    """m[dot] == '.' of a method call; scan backwards over the postfix receiver chain
    (identifiers, field accesses, paths, calls, indexing) and return the offset where it starts."""
    p = dot
    while True:
        q = p - 1
        while q >= 0 and m[q].isspace():
            q -= 1
        if q < 0:
            raise LostAnchor("no receiver before offset %d" % dot)
        if m[q] in ")]":
            s = _match_open(m, q)
            while s > 0 and _isid(m[s - 1]):
                s -= 1
        elif _isid(m[q]):
            s = q
            while s > 0 and _isid(m[s - 1]):
                s -= 1
        else:
            raise LostAnchor("unsupported receiver shape before offset %d" % dot)
        r = s - 1
        while r >= 0 and m[r].isspace():
            r -= 1
        if r >= 0 and m[r] == ".":
            p = r
            continue
        if r >= 1 and m[r] == ":" and m[r - 1] == ":":
            p = r - 1
            continue
        return s


def _closure_at(m, i):
    """m[i] == '|' starting a closure; return (params_start, params_end, body_start, body_end)
    where params are between the bars and body_end is exclusive; the closure is the last
    argument or is followed by ',' at depth 0 or the closing paren."""
    if m.startswith("||", i):
        ps = pe = i + 1
        b = i + 2
    else:
        j = i + 1
        depth = 0
        while j < len(m):
            if m[j] in "([<":
                depth += 1
            elif m[j] in ")]>":
                depth -= 1
            elif m[j] == "|" and depth == 0:
                break
            j += 1
        ps, pe = i + 1, j
        b = j + 1
    b = skip_ws(m, b)
    # optional `-> T` return annotation is not used in the repo
    if m[b] == "{":
        e = match_close(m, b) + 1
        return ps, pe, b, e
    k = b
    while k < len(m):
        c = m[k]
        if c in OPEN:
            k = match_close(m, k)
        elif c in ",)]};":
            break
        k += 1
    e = k
    while e > b and m[e - 1].isspace():
        e -= 1
    return ps, pe, b, e


def _forbid_control(m_body, what):
    # `break`/`continue` inside a closure body can only target loops inside that body (rustc rejects anything else), so
    # inlining the body keeps their meaning; `return` and `?` would leave the enclosing function instead of the closure
    if re.search(r"(?<![A-Za-z0-9_])return(?![A-Za-z0-9_])", m_body) or "?" in m_body:
        raise Unsupported("%s: closure body contains return/? - rule not applicable" % what)


import threading
_TLS = threading.local()   # per-thread: receivers that are local VALUES (auto-ref by the method call), from @value-receiver


def n1_map_with_mut(body, log):
    """N1: R.map_with_mut(|P| BODY)  ==>  { let __r = &mut *R; let P = __r.take(); let __v = BODY; *__r = __v; }"""
    while True:
        m = mask(body)
        hit = re.search(r"\.\s*map_with_mut\s*\(", m)
        if not hit:
            return body
        dot = hit.start()
        rs = _recv_start(m, dot)
        recv = body[rs:dot].strip()
        if not re.fullmatch(r"[A-Za-z_][A-Za-z0-9_]*", recv):
            raise Unsupported("N1: receiver of map_with_mut is not a plain identifier: %r" % recv)
        open_p = hit.end() - 1
        close_p = match_close(m, open_p)
        ci = skip_ws(m, open_p + 1)
        if m[ci] != "|":
            raise Unsupported("N1: argument of map_with_mut is not a closure literal")
        ps, pe, bs, be = _closure_at(m, ci)
        if skip_ws(m, be) != close_p:
            raise Unsupported("N1: unexpected tokens after closure in map_with_mut")
        param = body[ps:pe].strip()
        cbody = body[bs:be]
        _forbid_control(m[bs:be], "N1")
        borrow = ("&mut %s" if recv in getattr(_TLS, "n1_values", ()) else "&mut *%s") % recv
        new = "{ let __r = %s; let %s = __r.take(); let __v = %s; *__r = __v; }" % (borrow, param, cbody)
        body = body[:rs] + new + body[close_p + 1:]
        log.append("N1")


def n2_for_each(body, log):
    """N2: ITER.for_each(|P| BODY)  ==>  for P in ITER { BODY }"""
    while True:
        m = mask(body)
        hit = re.search(r"\.\s*for_each\s*\(", m)
        if not hit:
            return body
        dot = hit.start()
        rs = _recv_start(m, dot)
        it = re.sub(r"\s+", "", body[rs:dot]) if "\n" in body[rs:dot] else body[rs:dot].strip()
        open_p = hit.end() - 1
        close_p = match_close(m, open_p)
        ci = skip_ws(m, open_p + 1)
        if m[ci] != "|":
            raise Unsupported("N2: argument of for_each is not a closure literal")
        ps, pe, bs, be = _closure_at(m, ci)
        if skip_ws(m, be) != close_p:
            raise Unsupported("N2: unexpected tokens after closure in for_each")
        param = body[ps:pe].strip()
        cbody = body[bs:be]
        _forbid_control(m[bs:be], "N2")
        if not cbody.lstrip().startswith("{"):
            cbody = "{ " + cbody + " }"
        new = "for %s in %s %s" % (param, it, cbody)
        body = body[:rs] + new + body[close_p + 1:]
        log.append("N2")


# N3 table: constructor path -> (payload type, result type)
CTORS = {
    "Expr::Ident": ("Ident", "Expr"),
}


def n3_ctor_eta(body, log):
    """N3: `.map_or(d, Expr::Ident)` / `.map_or_else(f, Expr::Ident)` ==> explicit closure."""
    for ctor, (pt, rt) in CTORS.items():
        pat = re.compile(r",\s*%s\s*\)" % re.escape(ctor))
        while True:
            m = mask(body)
            hit = pat.search(m)
            if not hit:
                break
            clo = "|__x: %s| -> (__r: %s) ensures __r == %s(__x) { %s(__x) }" % (pt, rt, ctor, ctor)
            body = body[:hit.start()] + ", " + clo + ")" + body[hit.end():]
            log.append("N3")
    return body


def _enclosing_block(m, pos):
    """Return (open, close) offsets of the innermost `{}` block containing pos."""
    depth = 0
    k = pos - 1
    while k >= 0:
        if m[k] == "}":
            depth += 1
        elif m[k] == "{":
            if depth == 0:
                return k, match_close(m, k)
            depth -= 1
        k -= 1
    return -1, len(m)


def n4_withctx(body, log):
    """N4: `let X = &mut *self.with_child_ctx();` at the head of a block: make the guard and its drop explicit."""
    pat = re.compile(r"let\s+([A-Za-z_][A-Za-z0-9_]*)\s*=\s*&mut\s*\*\s*self\s*\.\s*with_child_ctx\s*\(\s*\)\s*;")
    while True:
        m = mask(body)
        hit = pat.search(m)
        if not hit:
            return body
        o, c = _enclosing_block(m, hit.start())
        # must be the first statement of its block (only whitespace/comments before it)
        if m[o + 1:hit.start()].strip():
            raise Unsupported("N4: with_child_ctx guard is not the first statement of its block")
        rest = body[hit.end():c if c < len(body) else len(body)]
        rest_m = m[hit.end():c if c < len(m) else len(m)]
        if re.search(r"(?<![A-Za-z0-9_])return(?![A-Za-z0-9_])", rest_m):
            raise Unsupported("N4: `return` inside a guarded block")
        # the guarded block must be a statement block: its last non-space char is ';' or '}'
        tail = rest_m.rstrip()
        if tail and tail[-1] not in ";}":
            raise Unsupported("N4: guarded block has a tail expression")
        x = hit.group(1)
        new = ("let mut __g = self.with_child_ctx(); { let %s = &mut *__g.reducer; %s } withctx_drop(&mut __g);\n"
               % (x, rest))
        body = body[:hit.start()] + new + body[(c if c < len(body) else len(body)):]
        log.append("N4")


def n5_bool_and(body, log):
    """N5: `X.root & auto_reset` (non-short-circuit and on two bools, rhs a plain identifier) ==> `&&`."""
    pat = re.compile(r"(\.root)\s*&\s*(auto_reset)\b")
    m = mask(body)
    hit = pat.search(m)
    while hit:
        body = body[:hit.start()] + hit.group(1) + " && " + hit.group(2) + body[hit.end():]
        log.append("N5")
        m = mask(body)
        hit = pat.search(m)
    return body


def parse_match_arms(text, m):
    """text/m: the inside of a match body.  Returns list of dicts with pat, guard, body, span offsets."""
    arms = []
    i = 0
    n = len(m)
    while True:
        i = skip_ws(m, i)
        if i >= n:
            break
        start = i
        # pattern [+ guard] up to '=>' at depth 0
        k = i
        while k < n:
            if m[k] in OPEN:
                k = match_close(m, k)
            elif m.startswith("=>", k):
                break
            k += 1
        if k >= n:
            break
        head = text[start:k]
        head_m = m[start:k]
        g = re.search(r"(?<![A-Za-z0-9_])if(?![A-Za-z0-9_])", head_m)
        if g:
            pat, guard = head[:g.start()].strip(), head[g.end():].strip()
        else:
            pat, guard = head.strip(), None
        b = skip_ws(m, k + 2)
        if m[b] == "{":
            e = match_close(m, b) + 1
            arm_body = text[b:e]
            nxt = skip_ws(m, e)
            if nxt < n and m[nxt] == ",":
                nxt += 1
        else:
            e = b
            while e < n:
                if m[e] in OPEN:
                    e = match_close(m, e)
                elif m[e] == ",":
                    break
                e += 1
            arm_body = text[b:e].rstrip()
            nxt = e + 1
        arms.append({"pat": pat, "guard": guard, "body": arm_body, "start": start, "end": min(nxt, n)})
        i = nxt
    return arms


def n8_guard_arms(body, log, scrutinee="expr"):
    """N8: arms `P(x) if G => A` with by-&mut binding  ==>  `P(x) => if G { A } else { W }` (W = text of the `_` arm).
    Valid only if no arm between the guarded arm and `_` can match the same variant - checked from the arm list."""
    m = mask(body)
    hit = re.search(r"(?<![A-Za-z0-9_])match\s+%s\s*\{" % re.escape(scrutinee), m)
    if not hit:
        return body
    o = hit.end() - 1
    c = match_close(m, o)
    inner, inner_m = body[o + 1:c], m[o + 1:c]
    arms = parse_match_arms(inner, inner_m)
    if not any(a["guard"] for a in arms):
        return body
    if not arms or arms[-1]["pat"] != "_" or arms[-1]["guard"]:
        raise Unsupported("N8: match has guarded arms but no final `_` arm")
    wild = arms[-1]["body"]
    if not wild.lstrip().startswith("{"):
        wild = "{ " + wild + " }"

    def variant(p):
        mm = re.match(r"\s*([A-Za-z_][A-Za-z0-9_:]*)", p)
        return mm.group(1) if mm else p

    out = []
    for idx, a in enumerate(arms):
        if a["guard"]:
            v = variant(a["pat"])
            for later in arms[idx + 1:-1]:
                if variant(later["pat"]) == v:
                    raise Unsupported("N8: variant %s is matched again after its guarded arm" % v)
            ab = a["body"] if a["body"].lstrip().startswith("{") else "{ " + a["body"] + " }"
            out.append("%s => { if %s %s else %s }" % (a["pat"], a["guard"], ab, wild))
            log.append("N8")
        else:
            sep = "" if a["body"].rstrip().endswith("}") else ","
            out.append("%s => %s%s" % (a["pat"], a["body"], sep))
    new_inner = "\n" + "\n\n".join(out) + "\n"
    return body[:o + 1] + new_inner + body[c:]


def n6_unwrap_or_else(body, log):
    """N6: `OPT.unwrap_or_else(|| BODY)` ==> `(match OPT { Some(__v) => __v, None => BODY })` (definition of
    Option::unwrap_or_else; BODY may mutate captured locals, which Verus closures cannot)."""
    while True:
        m = mask(body)
        hit = re.search(r"\.\s*unwrap_or_else\s*\(\s*\|\|", m)
        if not hit:
            return body
        dot = hit.start()
        rs = _recv_start(m, dot)
        recv = body[rs:dot].strip()
        open_p = m.index("(", dot)
        close_p = match_close(m, open_p)
        ps, pe, bs, be = _closure_at(m, hit.end() - 2)
        if skip_ws(m, be) != close_p:
            raise Unsupported("N6: unexpected tokens after closure")
        _forbid_control(m[bs:be], "N6")
        new = "(match %s { Some(__v) => __v, None => %s })" % (recv, body[bs:be])
        body = body[:rs] + new + body[close_p + 1:]
        log.append("N6")


def n10_map_collect(body, log):
    """N10: `X.iter().map(|P| BODY).collect::<Vec<T>>()`  ==>
            `{ let mut __c: Vec<T> = Vec::new(); for P in X.iter() { __c.push(BODY); } __c }`
    (definition of Iterator::map + collect into a Vec; also for iter_mut())."""
    while True:
        m = mask(body)
        hit = re.search(r"\.\s*(iter|iter_mut)\s*\(\s*\)\s*\.\s*map\s*\(", m)
        if not hit:
            return body
        dot = hit.start()
        rs = _recv_start(m, dot)
        recv = re.sub(r"\s+", "", body[rs:dot])
        itk = hit.group(1)
        open_p = hit.end() - 1
        close_p = match_close(m, open_p)
        ci = skip_ws(m, open_p + 1)
        if m[ci] != "|":
            raise Unsupported("N10: argument of map is not a closure literal")
        ps, pe, bs, be = _closure_at(m, ci)
        if skip_ws(m, be) != close_p:
            raise Unsupported("N10: unexpected tokens after closure in map")
        tail = re.match(r"\s*\.\s*collect\s*::\s*<\s*Vec\s*<", m[close_p + 1:])
        if not tail:
            raise Unsupported("N10: map(..) not followed by collect::<Vec<T>>()")
        ts = close_p + 1 + tail.end() - 4  # offset of 'Vec<'
        lt = m.index("<", ts)
        from rstok import skip_angle
        te = skip_angle(m, lt)          # after the '>' closing Vec<..>
        ty = body[ts:te]
        k = skip_ws(m, te)
        if m[k] != ">":
            raise Unsupported("N10: malformed collect turbofish")
        k = skip_ws(m, k + 1)
        if m[k] != "(":
            raise Unsupported("N10: collect without call parens")
        end = match_close(m, k) + 1
        param = body[ps:pe].strip()
        cbody = body[bs:be]
        _forbid_control(m[bs:be], "N10")
        new = "{ let mut __c: %s = Vec::new();\nfor %s in %s.%s() { __c.push(%s); }\n__c }" % (ty, param, recv, itk, cbody)
        body = body[:rs] + new + body[end:]
        log.append("N10")


def _early_return_to_else(cbody, m_cbody, log):
    """N15: a closure body `{ if C { return V; } REST }` ==> `{ if C { V } else { REST } }` (an early return in tail
    position of a closure is the value of the closure)."""
    inner = cbody.strip()
    if not inner.startswith("{"):
        return cbody
    mi = mask(inner)
    k = skip_ws(mi, 1)
    mm = re.match(r"if(?![A-Za-z0-9_])", mi[k:])
    if not mm:
        return cbody
    # condition up to the block
    j = k + 2
    while j < len(mi) and mi[j] != "{":
        if mi[j] in "([":
            j = match_close(mi, j)
        j += 1
    cond = inner[k + 2:j].strip()
    bc = match_close(mi, j)
    blk = inner[j + 1:bc].strip()
    rm = re.fullmatch(r"return\s+(.*?);?", blk, re.S)
    if not rm:
        return cbody
    after = skip_ws(mi, bc + 1)
    if mi.startswith("else", after):
        return cbody
    end = match_close(mi, 0)
    rest = inner[bc + 1:end].strip()
    if re.search(r"(?<![A-Za-z0-9_])return(?![A-Za-z0-9_])", mask(rest)):
        return cbody
    log.append("N15")
    return "{ if %s { %s } else { %s } }" % (cond, rm.group(1).strip(), rest)


def n14_skip_cloned_collect(body, log):
    """N14: `X.iter().skip(K).cloned().collect::<Vec<T>>()` ==>
       `{ let mut __c: Vec<T> = Vec::new(); let mut __i: usize = 0; for __x in X.iter() { if __i >= K { __c.push(__x.clone()); } __i += 1; } __c }`
    (definition of skip + cloned + collect into a Vec)."""
    while True:
        m = mask(body)
        hit = re.search(r"\.\s*iter\s*\(\s*\)\s*\.\s*skip\s*\(([^()]*)\)\s*\.\s*cloned\s*\(\s*\)\s*\.\s*collect\s*::\s*<\s*(Vec\s*<[^;]*?>)\s*>\s*\(\s*\)", m, re.S)
        if not hit:
            return body
        dot = hit.start()
        rs = _recv_start(m, dot)
        recv = re.sub(r"\s+", "", body[rs:dot])
        k = body[hit.start(1):hit.end(1)].strip()
        ty = re.sub(r"\s+", "", body[hit.start(2):hit.end(2)])
        new = ("{ let mut __c: %s = Vec::new(); let mut __i: usize = 0;\nfor __x in %s.iter() { if __i >= %s { __c.push(__x.clone()); } __i += 1; }\n__c }"
               % (ty, recv, k))
        body = body[:rs] + new + body[hit.end():]
        log.append("N14")


def n12_any_all(body, log):
    """N12: `ITER.any(|P| B)` ==> `{ let mut __r = false; for P in ITER { if !__r { if B { __r = true; } } } __r }`
            `ITER.all(|P| B)` ==> `{ let mut __r = true;  for P in ITER { if __r { if !(B) { __r = false; } } } __r }`
    (definition of Iterator::any/all: the closure is not evaluated after the result is decided)."""
    while True:
        m = mask(body)
        hit = re.search(r"\.\s*(any|all)\s*\(\s*\|", m)
        if not hit:
            return body
        dot = hit.start()
        rs = _recv_start(m, dot)
        it = re.sub(r"\s+", "", body[rs:dot]) if "\n" in body[rs:dot] else body[rs:dot].strip()
        which = hit.group(1)
        open_p = m.index("(", dot)
        close_p = match_close(m, open_p)
        ci = skip_ws(m, open_p + 1)
        ps, pe, bs, be = _closure_at(m, ci)
        if skip_ws(m, be) != close_p:
            raise Unsupported("N12: unexpected tokens after closure")
        param = body[ps:pe].strip()
        cbody = body[bs:be]
        if re.search(r"(?<![A-Za-z0-9_])return(?![A-Za-z0-9_])", m[bs:be]):
            cbody = _early_return_to_else(cbody, m[bs:be], log)
            if re.search(r"(?<![A-Za-z0-9_])return(?![A-Za-z0-9_])", mask(cbody)):
                raise Unsupported("N12: closure body with a `return` that is not a leading early return")
        if which == "any":
            new = "{ let mut __r = false;\nfor %s in %s { if !__r { if %s { __r = true; } } }\n__r }" % (param, it, cbody)
        else:
            new = "{ let mut __r = true;\nfor %s in %s { if __r { if !(%s) { __r = false; } } }\n__r }" % (param, it, cbody)
        body = body[:rs] + new + body[close_p + 1:]
        log.append("N12")


def n13_find(body, log):
    """N13: `ITER.find(|P| B)` ==> `{ let mut __f = None; for P in ITER { if __f.is_none() { if B { __f = Some(P); } } } __f }`
    (definition of Iterator::find: first element satisfying the predicate; the closure parameter of `find` is a reference to
    the item, auto-deref makes the body type-check unchanged)."""
    while True:
        m = mask(body)
        hit = re.search(r"\.\s*find\s*\(\s*\|", m)
        if not hit:
            return body
        dot = hit.start()
        rs = _recv_start(m, dot)
        it = re.sub(r"\s+", "", body[rs:dot]) if "\n" in body[rs:dot] else body[rs:dot].strip()
        open_p = m.index("(", dot)
        close_p = match_close(m, open_p)
        ci = skip_ws(m, open_p + 1)
        ps, pe, bs, be = _closure_at(m, ci)
        if skip_ws(m, be) != close_p:
            raise Unsupported("N13: unexpected tokens after closure")
        param = body[ps:pe].strip()
        cbody = body[bs:be]
        if re.search(r"(?<![A-Za-z0-9_])return(?![A-Za-z0-9_])", m[bs:be]):
            raise Unsupported("N13: closure body with `return`")
        new = "{ let mut __f = None;\nfor %s in %s { if __f.is_none() { if %s { __f = Some(%s); } } }\n__f }" % (param, it, cbody, param)
        body = body[:rs] + new + body[close_p + 1:]
        log.append("N13")


def n18_map_stmt(body, log):
    """N18: an `OPT.map(|P| BODY);` whose value is discarded (expression statement) ==> `if let Some(P) = OPT { BODY; }`
    (definition of Option::map when the result is dropped)."""
    while True:
        m = mask(body)
        found = None
        for hit in re.finditer(r"\.\s*map\s*\(\s*\|", m):
            dot = hit.start()
            open_p = m.index("(", dot)
            close_p = match_close(m, open_p)
            k = skip_ws(m, close_p + 1)
            if k < len(m) and m[k] == ";":
                rs = _recv_start(m, dot)
                # statement position: previous non-space char is one of ; { }
                q = rs - 1
                while q >= 0 and m[q].isspace():
                    q -= 1
                if q < 0 or m[q] in ";{}":
                    found = (rs, dot, open_p, close_p, k)
                    break
        if not found:
            return body
        rs, dot, open_p, close_p, semi = found
        recv = re.sub(r"\s+", "", body[rs:dot])
        ci = skip_ws(m, open_p + 1)
        ps, pe, bs, be = _closure_at(m, ci)
        if skip_ws(m, be) != close_p:
            raise Unsupported("N18: unexpected tokens after closure")
        _forbid_control(m[bs:be], "N18")
        param = body[ps:pe].strip()
        cbody = body[bs:be]
        new = "if let Some(%s) = %s { %s; }" % (param, recv, cbody)
        body = body[:rs] + new + body[semi + 1:]
        log.append("N18")


def n23_str_match(body, log):
    """N23: `match S { "A" => X, "B" => Y, _ => Z }` on a string slice ==> `if S == "A" { X } else if S == "B" { Y } else { Z }`
    (definition of matching constant string patterns, tested in order)."""
    while True:
        m = mask(body)
        found = None
        for hit in re.finditer(r"(?<![A-Za-z0-9_])match\s+", m):
            k = hit.end()
            j = k
            while j < len(m) and m[j] != "{":
                if m[j] in "([":
                    j = match_close(m, j)
                j += 1
            c = match_close(m, j)
            arms = parse_match_arms(body[j + 1:c], m[j + 1:c])
            if arms and all((a["pat"].startswith('"') and a["pat"].endswith('"')) or a["pat"] == "_" for a in arms) \
                    and arms[-1]["pat"] == "_" and not any(a["guard"] for a in arms) and len(arms) > 1:
                found = (hit.start(), k, j, c, arms)
                break
        if not found:
            return body
        start, k, j, c, arms = found
        scrut = body[k:j].strip()
        parts = []
        for a in arms[:-1]:
            ab = a["body"] if a["body"].lstrip().startswith("{") else "{ " + a["body"] + " }"
            parts.append("if __s == %s %s" % (a["pat"], ab))
        wb = arms[-1]["body"] if arms[-1]["body"].lstrip().startswith("{") else "{ " + arms[-1]["body"] + " }"
        # a `match` with a single binding arm keeps temporaries of the scrutinee alive exactly as the original match did
        new = "match %s { __s => { %s else %s } }" % (scrut, " else ".join(parts), wb)
        body = body[:start] + new + body[c + 1:]
        log.append("N23")


def n19_and_then(body, log):
    """N19: `OPT.and_then(|P| BODY)` ==> `(match OPT { Some(P) => BODY, None => None })` (definition of Option::and_then;
    on a Result receiver the rewritten text does not type-check and the run ends INCONCLUSIVE)."""
    while True:
        m = mask(body)
        hit = re.search(r"\.\s*and_then\s*\(\s*\|", m)
        if not hit:
            return body
        dot = hit.start()
        rs = _recv_start(m, dot)
        recv = body[rs:dot].strip()
        open_p = m.index("(", dot)
        close_p = match_close(m, open_p)
        ps, pe, bs, be = _closure_at(m, hit.end() - 1)
        if skip_ws(m, be) != close_p:
            raise Unsupported("N19: unexpected tokens after closure")
        _forbid_control(m[bs:be], "N19")
        param = body[ps:pe].strip()
        if not re.fullmatch(r"[A-Za-z_][A-Za-z0-9_]*", param):
            raise Unsupported("N19: closure parameter is not a plain identifier")
        new = "(match %s { Some(%s) => %s, None => None })" % (recv, param, body[bs:be])
        body = body[:rs] + new + body[close_p + 1:]
        log.append("N19")


def n20_bool_then(body, log):
    """N20: `COND.then(|| BODY)` ==> `(if COND { Some(BODY) } else { None })` (definition of bool::then)."""
    while True:
        m = mask(body)
        hit = re.search(r"\.\s*then\s*\(\s*\|\|", m)
        if not hit:
            return body
        dot = hit.start()
        rs = _recv_start(m, dot)
        recv = body[rs:dot].strip()
        open_p = m.index("(", dot)
        close_p = match_close(m, open_p)
        ps, pe, bs, be = _closure_at(m, hit.end() - 2)
        if skip_ws(m, be) != close_p:
            raise Unsupported("N20: unexpected tokens after closure")
        _forbid_control(m[bs:be], "N20")
        new = "(if %s { Some(%s) } else { None })" % (recv, body[bs:be])
        body = body[:rs] + new + body[close_p + 1:]
        log.append("N20")


def n21_tokens_loop(body, log):
    """N21: `for T in M.tokens() { BODY }` (sourcemap::SourceMap) ==> index loop over `M.get_token(i)`, i in 0..M.get_token_count()
    (definition of sourcemap's TokenIter: `next()` is `get_token(next_idx)` followed by `next_idx += 1`)."""
    n = 0
    while True:
        m = mask(body)
        hit = re.search(r"(?<![A-Za-z0-9_])for\s+([A-Za-z_][A-Za-z0-9_]*)\s+in\s+([A-Za-z_][A-Za-z0-9_.]*)\s*\.\s*tokens\s*\(\s*\)\s*\{", m)
        if not hit:
            return body
        bs = hit.end() - 1
        be = match_close(m, bs)
        var, recv = hit.group(1), hit.group(2)
        idx = "verif_i%d" % n
        n += 1
        # the index is advanced before the body runs, as TokenIter::next does, so `continue` in the body keeps its meaning
        new = ("let mut %s: u32 = 0;\nwhile %s < %s.get_token_count() {\nlet %s = %s.get_token(%s).unwrap();\n%s += 1;%s\n}"
               % (idx, idx, recv, var, recv, idx, idx, body[bs + 1:be]))
        body = body[:hit.start()] + new + body[be + 1:]
        log.append("N21")


def n24_wildcard_param(body, log):
    """N24: a closure whose only parameter is the wildcard `_` gets a named, unused parameter (Verus: only variables are
    supported as closure parameters)."""
    n = 0
    while True:
        m = mask(body)
        hit = re.search(r"\(\s*\|\s*_\s*\|", m)
        if not hit:
            return body
        a = m.index("_", hit.start())
        body = body[:a] + ("verif_w%d" % n) + body[a + 1:]
        n += 1
        log.append("N24")



def n22_format(body, log):
    """N22: `format!("p0{}p1{}p2", a, b)` with plain `{}` placeholders (or, instead, inline captured `{name}` ones, which are
    `{}` with `name` as the argument) ==> `verif_format2(["p0", "p1", "p2"], &(a), &(b))`
    (Display formatting with `{}` is the concatenation of the literal pieces and the Display text of the arguments; the shim
    states the Display text of str / String / Cow<str>)."""
    while True:
        m = mask(body)
        hit = re.search(r"(?<![A-Za-z0-9_])format!\s*\(", m)
        if not hit:
            return body
        open_p = hit.end() - 1
        close_p = match_close(m, open_p)
        inner, minner = body[open_p + 1:close_p], m[open_p + 1:close_p]
        from rstok import split_top_level
        parts = [x.strip() for x in split_top_level(inner, minner, ",")]
        if parts and parts[-1] == "":
            parts = parts[:-1]
        lit = parts[0]
        if not (lit.startswith('"') and lit.endswith('"')):
            raise Unsupported("N22: format string is not a plain literal")
        text = lit[1:-1]
        if "{{" in text or "}}" in text:
            raise Unsupported("N22: escaped braces in format string")
        args = parts[1:]
        inline = re.findall(r"\{([A-Za-z_][A-Za-z0-9_]*)\}", text)
        if inline:
            # inline captured identifiers `{name}` are positional `{}` with `name` as the argument (std::fmt, implicit
            # named arguments); mixing them with explicit arguments is not handled
            if args or "{}" in text:
                raise Unsupported("N22: inline `{name}` placeholders mixed with explicit arguments")
            args = inline
            text = re.sub(r"\{[A-Za-z_][A-Za-z0-9_]*\}", "{}", text)
        pieces = text.split("{}")
        if any("{" in x or "}" in x for x in pieces):
            raise Unsupported("N22: format string uses placeholders other than `{}` / `{name}`")
        if len(args) != len(pieces) - 1 or not 1 <= len(args) <= 4:
            raise Unsupported("N22: %d placeholders, %d arguments" % (len(pieces) - 1, len(args)))
        new = "verif_format%d([%s], %s)" % (len(args), ", ".join('"%s"' % x for x in pieces), ", ".join("&(%s)" % a for a in args))
        body = body[:hit.start()] + new + body[close_p + 1:]
        log.append("N22")


def n25_dyn_cast(body, log):
    """N25: `let X = &EXPR as &dyn Comments;` ==> `let verif_tN = EXPR; let X = verif_unsize_comments(&verif_tN);`
    (temporary lifetime extension made explicit, and the unsizing coercion to `&dyn Comments` made an explicit identity
    call as in N17; Verus models neither)."""
    n = 0
    while True:
        m = mask(body)
        hit = re.search(r"(?<![A-Za-z0-9_])let\s+([A-Za-z_][A-Za-z0-9_]*)\s*=\s*&", m)
        found = None
        while hit:
            semi = hit.end()
            depth = 0
            while semi < len(m) and not (m[semi] == ";" and depth == 0):
                if m[semi] in "([{":
                    depth += 1
                elif m[semi] in ")]}":
                    depth -= 1
                semi += 1
            stmt = m[hit.end():semi]
            cm = re.search(r"\s+as\s+&\s*dyn\s+Comments\s*$", stmt)
            if cm:
                found = (hit, semi, cm)
                break
            hit = re.search(r"(?<![A-Za-z0-9_])let\s+([A-Za-z_][A-Za-z0-9_]*)\s*=\s*&", m[semi:])
            if hit:
                # re-anchor offsets
                off = semi
                class _H:  # minimal match-like object
                    pass
                h2 = _H()
                h2.start = lambda o=off, h=hit: h.start() + o
                h2.end = lambda o=off, h=hit: h.end() + o
                h2.group = lambda k, h=hit: h.group(k)
                hit = h2
        if not found:
            return body
        hit, semi, cm = found
        expr = body[hit.end():hit.end() + cm.start()].strip()
        tmp = "verif_t%d" % n
        n += 1
        new = "let %s = %s;\nlet %s = verif_unsize_comments(&%s);" % (tmp, expr, hit.group(1), tmp)
        body = body[:hit.start()] + new + body[semi + 1:]
        log.append("N25")


def n26_program_dispatch(body, log):
    """N26: `P.visit_mut_with(&mut V)` on a Program ==> `V.visit_mut_program(&mut P)` (swc_ecma_visit:
    `impl<V: VisitMut> VisitMutWith<V> for Program { fn visit_mut_with(&mut self, v: &mut V) { v.visit_mut_program(self) } }`;
    applied only where the contract file asks for it; on another node type the result does not type-check)."""
    while True:
        m = mask(body)
        hit = re.search(r"(?<![A-Za-z0-9_.])([A-Za-z_][A-Za-z0-9_]*)\s*\.\s*visit_mut_with\s*\(\s*&mut\s+([A-Za-z_][A-Za-z0-9_]*)\s*\)", m)
        if not hit:
            return body
        body = body[:hit.start()] + "%s.visit_mut_program(&mut %s)" % (hit.group(2), hit.group(1)) + body[hit.end():]
        log.append("N26")


def n17_unsize(body, log):
    """N17: the implicit unsizing coercion `&mut X` -> `&mut dyn IdentProvider` in the struct literal field
    `ident_provider: &mut ident_provider` is made an explicit call of the identity function `verif_unsize_provider`
    (Verus does not model unsizing; the function's assumed spec is: same object, same abstract state, same future)."""
    pat = re.compile(r"(ident_provider\s*:\s*)&mut\s+ident_provider\s*,")
    m = mask(body)
    hit = pat.search(m)
    while hit:
        body = body[:hit.start()] + hit.group(1) + "verif_unsize_provider(&mut ident_provider)," + body[hit.end():]
        log.append("N17")
        m = mask(body)
        hit = pat.search(m)
    return body


RULES = {
    "N1": n1_map_with_mut,
    "N2": n2_for_each,
    "N3": n3_ctor_eta,
    "N4": n4_withctx,
    "N5": n5_bool_and,
    "N6": n6_unwrap_or_else,
    "N8": n8_guard_arms,
    "N10": n10_map_collect,
    "N12": n12_any_all,
    "N13": n13_find,
    "N14": n14_skip_cloned_collect,
    "N17": n17_unsize,
    "N18": n18_map_stmt,
    "N23": n23_str_match,
    "N19": n19_and_then,
    "N20": n20_bool_then,
    "N21": n21_tokens_loop,
    "N24": n24_wildcard_param,
    "N22": n22_format,
    "N25": n25_dyn_cast,
    "N26": n26_program_dispatch,
}

# order matters: N8 restructures arms first, N4 then wraps guarded blocks, then closures are inlined
DEFAULT_ORDER = ["N8", "N4", "N18", "N1", "N2", "N14", "N10", "N12", "N13", "N3", "N5", "N17", "N23"]


def normalise(body, rules=None, n1_values=()):
    _TLS.n1_values = set(n1_values)
    log = []
    body, nlog = strip_logging(body)
    for r in (rules if rules is not None else DEFAULT_ORDER):
        body = RULES[r](body, log)
    return body, log, nlog

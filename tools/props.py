"""Property -> units table and notes shared by all checks."""

PROPS = {
    "C02": {"units": ["U3", "U4", "U5", "U6a", "U6b", "U6c", "U7", "U2", "U9"], "min_obligations": 20,
            "note": "rewriting only adds instrumentation: shape/erasure/order contracts on every constructor and transform"},
    "C03": {"units": ["U3", "U4", "U5", "U7", "U2", "U6b"], "min_obligations": 10,
            "note": "hook receives true result and operands in order: mirror clauses (argument list == operands left in the wrapped expression)"},
    "C04": {"units": ["U4", "U5", "U6b", "U6c", "U2"], "min_obligations": 6,
            "note": "every enabled operation instrumented: expr_done postcondition of the dispatcher, NotModified-only-if-literal lemmas of the transforms; traversal (children reach the visitor) is the assumed swc contract"},
    "C05": {"units": ["U2", "U2b", "U3", "U4", "U5", "U6b", "U9", "U11"], "min_obligations": 5, "kani": True,
            "note": "configuration honoured: operator gates, hook names taken from the configured dst, disabled operators untouched"},
    "C06": {"units": ["U1", "U3", "U4", "U5", "U6a", "U6b", "U6c", "U7"], "min_obligations": 10,
            "note": "temporaries hygienic: fresh index, declared, assigned before use"},
    "C07": {"units": ["U6a", "U4", "U6b", "U6c", "U7", "U11"], "min_obligations": 6,
            "note": "directive prologues survive: insertion index == directive-prologue length; injected let / file prologue spliced right after it"},
    "C09": {"units": ["U3", "U4", "U5", "U6a", "U9", "U7", "U10", "U11"], "min_obligations": 5,
            "note": "span discipline of injected / copied nodes"},
    "C12": {"units": ["U1", "U6a", "U4", "U5", "U6b", "U6c", "U9", "U7", "U10", "U11"], "min_obligations": 5,
            "note": "status never disagrees with content"},
    "C10": {"units": ["U10", "U9"], "min_obligations": 8,
            "note": "chain_source_maps under contract over abstract views of the sourcemap crate (assumed library specs): the returned text serialises exactly the token-by-token composition, None (plain rewrite map) when chaining is off / no original map / unparsable rewrite map; lemma_exact_composition: generated positions resolve as the two-step lookup when every rewrite token has a hit. Trailer and comment handling (print_js, extract_source_map, remove_comment_text) is NOT proved: pinned by sha256 + replayed witnesses"},
    "C13": {"units": ["U1", "U2", "U3", "U4", "U5", "U6a", "U6b", "U6c", "U8", "U9", "U7", "U2b", "U10", "U11"], "min_obligations": 30,
            "note": "totality: Verus' implicit obligations (no overflow, no failing unwrap/index/slice, every loop and recursion terminates) on every verified function of every unit; glue functions pinned + panic witnesses"},
    "C14": {"units": ["U8", "U11"], "min_obligations": 8,
            "note": "literal report: length window, require/RegExp exclusions, which sub-trees are visited, disabled => no report; line/column shaping (get_result) is a pinned trusted leaf"},
    "C15": {"units": ["U1", "U4", "U5", "U6b", "U6c", "U7", "U2b", "U11", "U9", "U2"], "min_obligations": 10,
            "note": "metrics == instrumentation emitted: per-call contracts on update_status/Telemetry (U1) and on every update_status call site of visit_mut_expr (U6)"},
}

GLOBAL_TRUSTED = [
    "Verus 0.2026.09.13 + bundled Z3 (soundness of the verifier and its encoding of Rust)",
    "swc_ecma_ast/swc_common datatype definitions are re-read from the locked registry sources each run; their helper methods (is_lit, take, clone, From/Into, Atom equality) carry ASSUMED specs in shim/swc_helpers.rs",
    "std items without vstd specs carry ASSUMED specs in shim/std_specs.rs",
    "extraction drops: use lines (except enum-variant imports), non-derive attributes, derives other than Clone/Copy/PartialEq/Eq, visibility, logging macro statements, the `impl VisitMut for X` wrapper (overridden methods become inherent methods)",
    "normalisation rules N1-N26 (DESIGN.md 3.2, 10.1, 10.7, 10.8) are syntactic rewrites of library combinators / macros / dispatch into their definitions (e.g. N21: `for t in map.tokens()` == index loop over get_token(i); N22: format! with `{}` == concatenation of Display texts; N26: program.visit_mut_with(v) == v.visit_mut_program(program)); each application is listed per function",
    "library layers are ASSUMED through their shim contracts: sourcemap 8.0.1 (shim/sourcemap.rs), base64 / Cow / Display text (shim/textfmt.rs), swc Compiler::print / comments / anyhow::Error (shim/swc_compiler.rs), the swc traversal (shim/traversal*.rs)",
    "witness replay (replay crate, node execution oracle) is used only to demonstrate a violation on the real code; it never discharges an obligation",
    "machine arithmetic is NOT treated as mathematical: every usize/u32 operation carries an overflow obligation",
]

DROPPED_NOTE = ("use lines (replaced by shim; enum-variant imports kept), attributes other than derive, "
                "derives other than Clone/Copy/PartialEq/Eq (+Structural added: N7), doc comments, visibility qualifiers "
                "(everything is pub in the single generated module), debug!/error! logging statements, "
                "the `impl VisitMut for X`/`impl Visit for X` wrappers")

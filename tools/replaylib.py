"""Witness catalogue lookup and replay against the real code (native build of $VERIF_REPO/src)."""
import glob
import json
import os
import subprocess

VERIF = os.path.dirname(os.path.dirname(os.path.abspath(__file__)))


def replay_bin():
    return os.path.join(VERIF, ".cache", "target", "release", "replay")


def stamp_sources(repo):
    """cargo decides by modification time; the binary must follow the CONTENT of the tree it is pointed at (another tree, or
    files put back with their old time stamps): when the content hash of the sources differs from the one of the last build,
    the crate root is touched so that cargo compiles it again."""
    import hashlib
    h = hashlib.sha256()
    src = os.path.join(repo, "src")
    for root, dirs, files in sorted(os.walk(src)):
        dirs.sort()
        for fn in sorted(files):
            fp = os.path.join(root, fn)
            h.update(os.path.relpath(fp, src).encode() + b"\0")
            try:
                h.update(open(fp, "rb").read())
            except OSError:
                pass
    for extra in ("tracer_logger.js", "Cargo.lock"):
        try:
            h.update(open(os.path.join(repo, extra), "rb").read())
        except OSError:
            pass
    digest = h.hexdigest()
    stamp = os.path.join(VERIF, ".cache", "replay_sources.sha256")
    try:
        old = open(stamp).read().strip()
    except OSError:
        old = ""
    if old != digest:
        try:
            os.utime(os.path.join(VERIF, "replay", "src", "main.rs"), None)
            os.makedirs(os.path.dirname(stamp), exist_ok=True)
            open(stamp, "w").write(digest)
        except OSError:
            pass


def build_replay(repo):
    env = dict(os.environ)
    env["CARGO_NET_OFFLINE"] = "true"
    env["VERIF_REPO_SRC"] = os.path.join(repo, "src")
    # the replay crate reads the repository through two symlinks (so that VERIF_REPO can point at a scratch copy)
    for link, target in ((os.path.join(VERIF, ".cache", "repo_src"), os.path.join(repo, "src")),
                         (os.path.join(VERIF, "replay", "tracer_logger.js"), os.path.join(repo, "tracer_logger.js"))):
        try:
            if os.path.islink(link) and os.readlink(link) == target:
                continue
            if os.path.lexists(link):
                os.remove(link)
            os.makedirs(os.path.dirname(link), exist_ok=True)
            os.symlink(target, link)
        except OSError:
            pass
    env["RUSTFLAGS"] = "--cfg dd_iast_verif"
    env["CARGO_TARGET_DIR"] = os.path.join(VERIF, ".cache", "target")
    stamp_sources(repo)
    # scratch directories of real-file-system witnesses whose run was killed by a time limit (older than 15 minutes)
    import glob, shutil, tempfile, time
    for d in glob.glob(os.path.join(tempfile.gettempdir(), "verif_fs_*")):
        try:
            if time.time() - os.path.getmtime(d) > 900:
                shutil.rmtree(d, ignore_errors=True)
        except OSError:
            pass
    p = subprocess.run(["cargo", "build", "--release", "--offline", "-q"], cwd=os.path.join(VERIF, "replay"),
                       env=env, capture_output=True, text=True)
    return p.returncode == 0, p.stderr[-3000:]


_BUILT = {}   # repo -> (ok, err): the replay crate is rebuilt from the working tree once per check process


def run_panic_probe(wfile, repo, stress):
    """C13 probe: run the program of ANY catalogued witness (its own conditions ignored) and report a panic or a hang."""
    if repo not in _BUILT:
        _BUILT[repo] = build_replay(repo)
    ok, err = _BUILT[repo]
    if not ok:
        return {"reproduced": False, "error": "replay crate does not build: " + err}
    cmd = [replay_bin(), "--file", wfile, "--only-panics"] + (["--stress-config"] if stress else [])
    try:
        p = subprocess.run(cmd, capture_output=True, text=True, timeout=30)
    except subprocess.TimeoutExpired:
        return {"reproduced": True, "output": "the call did not return within 30 s (REPRODUCED: hangs)", "witness_file": wfile, "stderr": ""}
    out = p.stdout
    crashed = p.returncode != 0 and "REPRODUCED" not in out     # abort / stack overflow of the process itself
    return {"reproduced": ("REPRODUCED" in out and "NOT-REPRODUCED" not in out) or crashed, "output": out[-3000:] + ("\nprocess exit code %s" % p.returncode if crashed else ""),
            "witness_file": wfile, "stderr": p.stderr[-1000:]}


def run_generic(wfile, repo, prop, variant):
    """Run the PROGRAM of a catalogued witness under a configuration variant and evaluate the relational oracles of `prop`."""
    if repo not in _BUILT:
        _BUILT[repo] = build_replay(repo)
    ok, err = _BUILT[repo]
    if not ok:
        return {"reproduced": False, "error": "replay crate does not build: " + err}
    try:
        p = subprocess.run([replay_bin(), "--file", wfile, "--generic", prop, "--variant", variant], capture_output=True, text=True, timeout=40)
    except subprocess.TimeoutExpired:
        return {"reproduced": prop == "C13", "output": "the call did not return within 40 s", "witness_file": wfile, "stderr": "", "failed": ["hangs"]}
    out = p.stdout
    crashed = p.returncode != 0 and "REPRODUCED" not in out
    failed = [l.split()[1] for l in out.splitlines() if l.startswith("GENERIC-FAIL")]
    return {"reproduced": bool(failed) or (crashed and prop == "C13"), "failed": failed or (["process_crash"] if crashed else []),
            "output": out[-3000:], "witness_file": wfile, "stderr": p.stderr[-800:]}


def run_witness(wfile, repo):
    if repo not in _BUILT:
        _BUILT[repo] = build_replay(repo)
    ok, err = _BUILT[repo]
    if not ok:
        return {"reproduced": False, "error": "replay crate does not build: " + err}
    try:
        wants_hang = '"hangs"' in open(wfile).read()
    except OSError:
        wants_hang = False
    try:
        p = subprocess.run([replay_bin(), "--file", wfile], capture_output=True, text=True, timeout=20 if wants_hang else 120)
    except subprocess.TimeoutExpired:
        # the rewrite call did not return: that is the violation a `hangs` witness describes; for any other witness the run
        # is simply not usable
        return {"reproduced": wants_hang, "output": "the call did not return within the time limit (REPRODUCED: hangs)" if wants_hang else "timeout",
                "witness_file": wfile, "stderr": ""}
    out = p.stdout
    return {"reproduced": "REPRODUCED" in out and "NOT-REPRODUCED" not in out, "output": out[-4000:],
            "witness_file": wfile, "stderr": p.stderr[-1000:]}


def find_witness(prop, label, repo):
    """Replay catalogued inputs for this obligation; return the first that reproduces on the real code."""
    cands = []
    for f in sorted(glob.glob(os.path.join(VERIF, "witnesses", prop, "*.json"))):
        try:
            w = json.load(open(f))
        except Exception:
            continue
        pats = w.get("obligations", [])
        if any(label == p or label.startswith(p.rstrip("*")) and p.endswith("*") for p in pats):
            cands.append(f)
    last = None
    for f in cands:
        r = run_witness(f, repo)
        last = r
        if r.get("reproduced"):
            return r
    return last


def any_witness(prop, repo, skip=()):
    """Replay every catalogued input of the property (except `skip`); return the first that reproduces."""
    last = None
    for f in sorted(glob.glob(os.path.join(VERIF, "witnesses", prop, "*.json"))):
        if os.path.basename(f) in skip:
            continue
        r = run_witness(f, repo)
        last = r
        if r.get("reproduced"):
            return r
    return last


def replay_file(path, repo):
    doc = json.load(open(path))
    if "witness" in doc and doc["witness"] and doc["witness"].get("witness_file"):
        r = run_witness(doc["witness"]["witness_file"], repo)
        print(r.get("output", ""))
        print("REPRODUCED" if r.get("reproduced") else "NOT-REPRODUCED")
        return 1 if r.get("reproduced") else 0
    if "source" in doc:
        r = run_witness(path, repo)
        print(r.get("output", ""))
        return 1 if r.get("reproduced") else 0
    print("replay file names obligation %s; no concrete input attached.\n%s" % (doc.get("obligation"), doc.get("verifier_output")))
    return 0

#!/usr/bin/env python3
"""gen_programs.py N SEED OUTDIR: write N grammar-generated JavaScript programs (with a driver expression) as witnesses.

Each program is one function `f(a, b, c)` over string arguments built from every instrumentable operation (+, +=, templates,
String methods, optional calls, prototype call/apply) in random statement contexts, with effectful operands `g('n')` that log,
so that evaluation order, single evaluation and the values handed to hooks are observable.  Shapes of recorded findings are
avoided by construction (literal-only sums as operands: D6; `+=` on non-identifier targets: D5; optional chains inside the
arguments of optional calls: D15; apply with holes or non-array arguments: D13/D19).  The programs carry no expectation of
their own: they are judged by the relational oracles of the generic probes and by execution equivalence."""
import json, os, random, sys

def gen(n, seed, outdir):
    rnd = random.Random(seed)
    os.makedirs(outdir, exist_ok=True)
    for k in range(n):
        ctr = [0]
        def lit():
            ctr[0] += 1
            return "'s%d'" % ctr[0]
        def eff():
            ctr[0] += 1
            return "g('e%d')" % ctr[0]
        def atom():
            r = rnd.random()
            if r < 0.35: return rnd.choice(["a", "b", "c", "out"])
            if r < 0.55: return eff()
            if r < 0.75: return lit()
            if r < 0.85: return str(rnd.randint(0, 9))
            return "o." + rnd.choice(["p", "q"])
        def is_lit(e):
            return e.startswith("'") or e.isdigit()
        def expr(d):
            if d <= 0: return atom()
            r = rnd.random()
            if r < 0.25:
                l, rr = expr(d - 1), expr(d - 1)
                if is_lit(l) and is_lit(rr): rr = rnd.choice(["a", "b", "c"])
                return "%s + %s" % (l if not (" ? " in l or " || " in l) else "(" + l + ")", rr if not (" ? " in rr or " || " in rr or " + " in rr) else "(" + rr + ")")
            if r < 0.37:
                parts = [expr(d - 1) for _ in range(rnd.randint(1, 3))]
                parts = [p if not is_lit(p) else rnd.choice(["a", "b", "c"]) for p in parts]
                return "`" + "".join(rnd.choice(["", "-", "x "]) + "${" + p + "}" for p in parts) + "`"
            if r < 0.50: return "(%s).trim()" % expr(d - 1) if rnd.random() < 0.5 else "%s.trim()" % rnd.choice(["a", "b", "c", eff()])
            if r < 0.60: return "%s.substring(%s)" % (rnd.choice(["a", "b", "c", eff(), "(" + expr(d - 1) + ")"]), rnd.choice(["1", "0, 2", "g(1)"]))
            if r < 0.72: return "%s.concat(%s)" % (rnd.choice(["a", "b", eff(), "(" + expr(d - 1) + ")", "[a, b]"]), ", ".join(expr(d - 1) for _ in range(rnd.randint(1, 3))))
            if r < 0.79: return "%s?.trim()" % rnd.choice(["a", "n", eff(), "o.p", "o.missing"])
            if r < 0.86:
                if rnd.random() < 0.5: return "String.prototype.concat.call(%s, %s)" % (expr(d - 1), expr(d - 1))
                return "String.prototype.concat.apply(%s, [%s, %s])" % (rnd.choice(["a", "b", eff()]), expr(d - 1), expr(d - 1))
            if r < 0.91: return "(%s ? %s : %s)" % (rnd.choice(["a", "n", eff()]), expr(d - 1), expr(d - 1))
            if r < 0.95: return "(%s || %s)" % (rnd.choice(["n", "a", eff()]), expr(d - 1))
            return "h(%s)" % ", ".join(expr(d - 1) for _ in range(rnd.randint(1, 2)))
        def stmt(d):
            r = rnd.random()
            if r < 0.30: return "out += %s;" % expr(2)
            if r < 0.42: return "var v%d = %s; out = out + v%d;" % (k * 100 + rnd.randint(0, 99), expr(2), 0) .replace("v0;", "'';") if False else "out = out + (%s);" % expr(2)
            if r < 0.54: return "if (%s) { %s } else { %s }" % (expr(1), stmt(d - 1) if d > 0 else "out += a;", stmt(d - 1) if d > 0 else "out += b;")
            if r < 0.62: return "for (var i = 0; i < 2; i++) { out += %s + i; }" % expr(1)
            if r < 0.70: return "try { out += %s; if (out.length > 3) throw new Error(%s); } catch (e) { out += e.constructor.name + %s; } finally { out += %s; }" % (expr(1), expr(1), expr(1), lit())
            if r < 0.78: return "out += (function (p) { return %s + p; })(%s);" % (expr(1), expr(1))
            if r < 0.86: return "out += ((p) => %s)(%s);" % (expr(1), expr(1))
            if r < 0.92: return "switch (%s) { case %s: out += %s; break; default: out += %s; }" % (expr(1), lit(), expr(1), expr(1))
            return "c += %s;" % expr(2)
        body = " ".join(stmt(2) for _ in range(rnd.randint(2, 5)))
        src = ("function g(s) { __log('g' + s); return s; } function h() { __log('h' + arguments.length); return Array.prototype.join.call(arguments, '|'); } "
               "function f(a, b, c) { var out = ''; var n = null; var o = { p: ' P ', q: 'Q' }; %s return out + %s; }" % (body, expr(2)))
        w = {"obligations": [], "generated": "tools/gen_programs.py seed=%d index=%d" % (seed, k),
             "what": "the rewritten program behaves differently from the input program under pass-through hooks (grammar-generated program %d)" % k,
             "file_name": "gen%03d.js" % k, "source": src,
             "generic_variants": ["default", "no_tpl", "plus_only", "renamed", "stress", "information", "comments", "prologue", "empty"],
             "violated_when": [{"exec_differs": "f(' A ', 'B', 'C')"}]}
        json.dump(w, open(os.path.join(outdir, "gen_%03d.json" % k), "w"), indent=1)

if __name__ == "__main__":
    gen(int(sys.argv[1]), int(sys.argv[2]), sys.argv[3])

"""Generate the *type* part of the swc shim from the dependency sources actually locked in /repo/Cargo.lock.

For every type in TRANSPARENT the struct/enum definition is copied from the registry source
(attributes, doc comments and visibility dropped); every other type those definitions mention becomes an
abstract (external_body) type.  So field names/order and variant lists cannot drift from the real
dependency: they are re-read on every run.  Behavioural specs of helper functions (is_lit, take, ...)
live in shim/swc_helpers.rs and are assumptions.
"""
import glob
import os
import re

from rstok import SourceFile, mask, LostAnchor

TRANSPARENT = """Expr ArrayLit UnaryExpr BinExpr AssignExpr MemberExpr MemberProp CondExpr CallExpr NewExpr SeqExpr
ArrowExpr Tpl ParenExpr Callee ExprOrSpread BlockStmtOrExpr AssignTarget SimpleAssignTarget OptChainExpr
OptChainBase OptCall Ident IdentName BindingIdent Lit Str Null Stmt BlockStmt IfStmt ReturnStmt ExprStmt VarDecl
VarDeclarator VarDeclKind Pat Decl ModuleItem Program Script Module BinaryOp AssignOp UnaryOp ObjectLit PropOrSpread
Prop KeyValueProp PropName Span BytePos Invalid""".split()

COPY_TYPES = {"BinaryOp", "AssignOp", "UnaryOp", "VarDeclKind", "Span", "BytePos", "SyntaxContext"}
BUILTIN = {"Box", "Vec", "Option", "String", "Self", "Atom", "JsWord", "SyntaxContext"}
PRIMS = {"bool", "u8", "u16", "u32", "u64", "usize", "i32", "i64", "f64", "f32", "str", "char"}


def locked_version(repo, crate):
    lock = open(os.path.join(repo, "Cargo.lock")).read()
    m = re.search(r'name = "%s"\nversion = "([^"]+)"' % re.escape(crate), lock)
    if not m:
        raise LostAnchor("crate %s not in Cargo.lock" % crate)
    return m.group(1)


def registry_dir(crate, version):
    hits = glob.glob(os.path.expanduser("~/.cargo/registry/src/*/%s-%s" % (crate, version)))
    if not hits:
        raise LostAnchor("registry source of %s-%s not found" % (crate, version))
    return hits[0]


def clean_body(text):
    """Drop comments, attributes and visibility from a struct/enum body."""
    m = mask(text)
    # remove comments (masked as spaces but `//` delimiters themselves were blanked too)
    out = []
    i = 0
    # rebuild from masked where comment chars blanked: take original chars where masked == original
    res = "".join(c if (mc == c) else (" " if c != "\n" else "\n") for c, mc in zip(text, m))
    # strip attributes
    while True:
        mm = mask(res)
        h = re.search(r"#\s*\[", mm)
        if not h:
            break
        k = h.end() - 1
        depth = 0
        while True:
            if mm[k] == "[":
                depth += 1
            elif mm[k] == "]":
                depth -= 1
                if depth == 0:
                    break
            k += 1
        res = res[:h.start()] + res[k + 1:]
    res = re.sub(r"\n\s*\n+", "\n", res)
    return res


def generate(repo):
    vers = {c: locked_version(repo, c) for c in ("swc_ecma_ast", "swc_common")}
    files = []
    for c in ("swc_ecma_ast", "swc_common"):
        d = registry_dir(c, vers[c])
        for f in glob.glob(os.path.join(d, "src", "**", "*.rs"), recursive=True):
            files.append(f)
    defs = {}
    for f in files:
        try:
            sf = SourceFile(f, open(f).read())
        except Exception:
            continue
        for it in sf.items:
            if it.kind in ("struct", "enum") and it.name in TRANSPARENT and it.name not in defs:
                defs[it.name] = (it, f)
    missing = [t for t in TRANSPARENT if t not in defs]
    if missing:
        raise LostAnchor("shimgen: types not found in registry sources: %s" % missing)
    out = []
    mentioned = set()
    records = []
    for name in TRANSPARENT:
        it, f = defs[name]
        text = 'pub ' + it.src[it.vis_end:it.end]
        text = clean_body(text)
        for w in re.findall(r"[A-Z][A-Za-z0-9_]*", re.sub(r"^pub (struct|enum)\s+\w+", "", text)):
            mentioned.add(w)
        if name in COPY_TYPES:
            out.append("#[derive(Clone, Copy, PartialEq, Eq, Structural)]")
        out.append(text.strip())
        out.append("")
        records.append({"type": name, "from": os.path.relpath(f, os.path.expanduser("~/.cargo/registry/src"))})
    # variant names of transparent enums are "mentioned" too; filter to real type names: those that are
    # used in a type position = not a variant identifier of the same enum.  Simplest sound approach:
    # everything mentioned that is not transparent/builtin and is followed nowhere by '(' as a variant decl.
    variant_names = set()
    for name in TRANSPARENT:
        it, f = defs[name]
        if it.kind == "enum":
            body = clean_body(it.body())
            for v in re.finditer(r"(?:^|,|\{)\s*([A-Z][A-Za-z0-9_]*)\s*(\(|,|$|\})", body, re.M):
                variant_names.add(v.group(1))
    type_positions = set()
    for name in TRANSPARENT:
        it, f = defs[name]
        body = clean_body(it.body() if it.body_open is not None else it.src[it.vis_end:it.end])
        if it.kind == "enum":
            for v in re.finditer(r"\(([^()]*)\)", body):
                type_positions.update(re.findall(r"[A-Z][A-Za-z0-9_]*", v.group(1)))
        else:
            for v in re.finditer(r":\s*([^,\n]+)", body):
                type_positions.update(re.findall(r"[A-Z][A-Za-z0-9_]*", v.group(1)))
            if it.body_open is None:
                type_positions.update(re.findall(r"[A-Z][A-Za-z0-9_]*", re.sub(r"^struct\s+\w+", "", body.strip())))
    opaque = sorted(t for t in type_positions if t not in TRANSPARENT and t not in BUILTIN)
    for t in opaque:
        out.append("#[verifier::external_body] pub struct %s { _p: u8 }" % t)
    out.append("")
    # Clone with structural spec for every non-Copy generated type (swc derives Clone on all AST nodes)
    for t in [x for x in TRANSPARENT if x not in COPY_TYPES] + opaque:
        out.append("impl Clone for %s { #[verifier::external_body] fn clone(&self) -> (r: Self) ensures r == *self { unimplemented!() } }" % t)
    out.append("")
    return "\n".join(out), {"versions": vers, "transparent": records, "opaque": opaque}


if __name__ == "__main__":
    import sys
    t, meta = generate(sys.argv[1] if len(sys.argv) > 1 else "/repo")
    print(t)

"""Minimal Rust lexical tools: masking of comments/strings, bracket matching, item extraction.

Nothing here interprets Rust semantically.  Items are located by *path* (kind + name, or the
normalised header of an impl block), never by line number.
"""
import re


class LostAnchor(Exception):
    """An item / anchor / pattern the unit description says must exist was not found."""


def mask(src):
    """Return a string of the same length as `src` where the *contents* of comments, string
    literals, raw strings, byte strings and char literals are replaced by spaces (newlines kept).
    Delimiters of strings are kept so that tokens stay separated.  Lifetimes ('a) are kept."""
    out = list(src)
    i, n = 0, len(src)

    def blank(a, b):
        for k in range(a, b):
            if out[k] != "\n":
                out[k] = " "

    while i < n:
        c = src[i]
        if c == "/" and i + 1 < n and src[i + 1] == "/":
            j = src.find("\n", i)
            if j < 0:
                j = n
            blank(i, j)
            i = j
        elif c == "/" and i + 1 < n and src[i + 1] == "*":
            depth, j = 1, i + 2
            while j < n and depth:
                if src.startswith("/*", j):
                    depth += 1
                    j += 2
                elif src.startswith("*/", j):
                    depth -= 1
                    j += 2
                else:
                    j += 1
            blank(i, j)
            i = j
        elif c == '"' or (c == "b" and i + 1 < n and src[i + 1] == '"' and not _ident_char(src, i - 1)):
            if c == "b":
                i += 1
            j = i + 1
            while j < n and src[j] != '"':
                if src[j] == "\\":
                    j += 1
                j += 1
            blank(i + 1, j)
            i = j + 1
        elif c == "r" and not _ident_char(src, i - 1) and re.match(r'r#*"', src[i:i + 12]):
            m = re.match(r'r(#*)"', src[i:i + 12])
            hashes = m.group(1)
            start = i + len(m.group(0))
            end = src.find('"' + hashes, start)
            if end < 0:
                end = n
            blank(start, end)
            i = end + 1 + len(hashes)
        elif c == "'":
            # char literal or lifetime
            m = re.match(r"'(\\.[^']*|[^'\\])'", src[i:i + 12])
            if m:
                blank(i + 1, i + len(m.group(0)) - 1)
                i += len(m.group(0))
            else:
                i += 1
        else:
            i += 1
    return "".join(out)


def _ident_char(src, k):
    return k >= 0 and (src[k].isalnum() or src[k] == "_")


OPEN = {"(": ")", "[": "]", "{": "}"}
CLOSE = {v: k for k, v in OPEN.items()}


def match_close(masked, i):
    """masked[i] is an opening bracket; return index of the matching closing bracket."""
    stack = []
    n = len(masked)
    k = i
    while k < n:
        c = masked[k]
        if c in OPEN:
            stack.append(c)
        elif c in CLOSE:
            if not stack or stack[-1] != CLOSE[c]:
                raise LostAnchor("unbalanced brackets at offset %d" % k)
            stack.pop()
            if not stack:
                return k
        k += 1
    raise LostAnchor("unterminated bracket at offset %d" % i)


def skip_ws(masked, i):
    n = len(masked)
    while i < n and masked[i].isspace():
        i += 1
    return i


def skip_angle(masked, i):
    """masked[i] == '<' opening a generic list; return index after the matching '>'.
    Handles '->' inside (does not count) and nested brackets."""
    depth = 0
    n = len(masked)
    k = i
    while k < n:
        c = masked[k]
        if c == "<":
            depth += 1
        elif c == ">" and masked[k - 1] != "-" and masked[k - 1] != "=":
            depth -= 1
            if depth == 0:
                return k + 1
        elif c in OPEN:
            k = match_close(masked, k)
        k += 1
    raise LostAnchor("unterminated generics at %d" % i)


ITEM_KW = ("fn", "impl", "trait", "struct", "enum", "const", "static", "type", "mod", "use", "extern", "macro_rules")


class Item:
    """One syntactic item.  Offsets index the original source text."""

    def __init__(self, kind, name, start, attrs_end, header_end, body_open, end, src, masked):
        self.kind = kind              # fn | impl | trait | struct | enum | const | ...
        self.name = name              # identifier, or normalised impl header
        self.start = start            # start including attributes / doc comments
        self.attrs_end = attrs_end    # start of the item proper (after attributes)
        self.body_open = body_open    # offset of '{' (None for `;` items)
        self.end = end                # one past the closing '}' or ';'
        self.src = src
        self.masked = masked
        self.children = []            # inner fns of impl / trait

    @property
    def key(self):
        return "%s %s" % (self.kind, self.name)

    def attrs_text(self):
        return self.src[self.start:self.attrs_end]

    def header(self):
        """Text from the item keyword start up to (not including) the body '{' or final ';'."""
        stop = self.body_open if self.body_open is not None else self.end - 1
        return self.src[self.attrs_end:stop]

    def header_masked(self):
        stop = self.body_open if self.body_open is not None else self.end - 1
        return self.masked[self.attrs_end:stop]

    def body(self):
        """Text strictly between the outer braces."""
        if self.body_open is None:
            return None
        return self.src[self.body_open + 1:self.end - 1]

    def body_masked(self):
        if self.body_open is None:
            return None
        return self.masked[self.body_open + 1:self.end - 1]

    def text(self):
        return self.src[self.attrs_end:self.end]


_word = re.compile(r"[A-Za-z_][A-Za-z0-9_]*")


def norm_header(h):
    """Normalise an impl header: collapse whitespace, drop generic parameter lists right after
    `impl`, drop lifetimes-only generic args, so that `impl<'a> Foo<'a>` and `impl Foo<'_>` share
    the key `impl Foo`."""
    h = re.sub(r"\s+", " ", h.strip())
    h = re.sub(r"\bwhere\b.*$", "", h).strip()
    if h.startswith("impl<"):
        k = skip_angle(h, 4)
        h = "impl " + h[k:].strip()
    # drop generic args consisting only of lifetimes / inference holes
    h = re.sub(r"<\s*('[A-Za-z_]+\s*,?\s*)+>", "", h)
    return h


def parse_items(src, masked=None, lo=0, hi=None):
    """Parse the items found in src[lo:hi] at nesting depth 0 relative to that range."""
    if masked is None:
        masked = mask(src)
    if hi is None:
        hi = len(src)
    items = []
    i = lo
    while True:
        i = skip_ws(masked, i)
        if i >= hi:
            break
        start = i
        # comments were blanked in `masked`; doc comments therefore vanish.  Attributes:
        while masked.startswith("#", i):
            j = i + 1
            if masked[j] == "!":
                j += 1
            j = skip_ws(masked, j)
            if masked[j] != "[":
                raise LostAnchor("odd attribute at %d" % i)
            i = skip_ws(masked, match_close(masked, j) + 1)
        attrs_end = i
        # visibility and qualifiers
        j = i
        while True:
            m = _word.match(masked, j)
            if not m:
                break
            w = m.group(0)
            if w == "pub":
                j = skip_ws(masked, m.end())
                if masked[j] == "(":
                    j = skip_ws(masked, match_close(masked, j) + 1)
                continue
            if w in ("unsafe", "async", "default"):
                j = skip_ws(masked, m.end())
                continue
            if w == "const" and _word.match(masked, skip_ws(masked, m.end())) and \
                    _word.match(masked, skip_ws(masked, m.end())).group(0) in ("fn", "unsafe"):
                j = skip_ws(masked, m.end())
                continue
            if w == "extern" and masked[skip_ws(masked, m.end())] == '"':
                k = skip_ws(masked, m.end())
                k = masked.index('"', k + 1) + 1
                j = skip_ws(masked, k)
                continue
            break
        m = _word.match(masked, j)
        if not m or m.group(0) not in ITEM_KW:
            # macro invocation or stray tokens: skip to the next ';' or balanced block
            k = j
            while k < hi and masked[k] not in ";{":
                if masked[k] in "([":
                    k = match_close(masked, k)
                k += 1
            if k < hi and masked[k] == "{":
                k = match_close(masked, k)
            i = k + 1
            continue
        kind = m.group(0)
        kw_end = m.end()
        # find the end of the header: first '{' or ';' at depth 0 (angle brackets ignored, parens skipped)
        k = kw_end
        body_open = None
        while k < hi:
            c = masked[k]
            if c in "([":
                k = match_close(masked, k)
            elif c == "{":
                body_open = k
                break
            elif c == ";":
                break
            k += 1
        if body_open is not None:
            end = match_close(masked, body_open) + 1
            # tuple/unit struct or `struct X {..}` have no trailing ';'
        else:
            end = k + 1
        if kind in ("impl",):
            name = norm_header(masked[attrs_end:body_open])
            name = name[len("impl"):].strip()
        elif kind == "trait":
            name = _word.match(masked, skip_ws(masked, kw_end)).group(0)
        elif kind in ("use", "extern", "mod", "macro_rules"):
            name = re.sub(r"\s+", " ", masked[kw_end:(body_open if body_open is not None else end - 1)].strip())
        else:
            mm = _word.match(masked, skip_ws(masked, kw_end))
            name = mm.group(0) if mm else "?"
        it = Item(kind, name, start, j if False else attrs_end, None, body_open, end, src, masked)
        it.vis_end = j  # offset where the keyword starts (after visibility/qualifiers)
        if kind in ("impl", "trait") and body_open is not None:
            it.children = [c for c in parse_items(src, masked, body_open + 1, end - 1)]
        items.append(it)
        i = end
    return items


class SourceFile:
    def __init__(self, path, text):
        self.path = path
        self.src = text
        self.masked = mask(text)
        self.items = parse_items(self.src, self.masked)

    def find(self, key, child=None):
        """key: 'fn name' | 'struct X' | 'impl Trait for X' ...; child: 'fn name' inside impl/trait."""
        cands = [it for it in self.items if it.key == key]
        if not cands:
            raise LostAnchor("%s: item `%s` not found" % (self.path, key))
        if child is None:
            if len(cands) > 1:
                raise LostAnchor("%s: item `%s` is ambiguous" % (self.path, key))
            return cands[0]
        hits = [c for it in cands for c in it.children if c.key == child]
        if len(hits) != 1:
            raise LostAnchor("%s: `%s :: %s` found %d times" % (self.path, key, child, len(hits)))
        return hits[0]

    def find_all(self, key):
        return [it for it in self.items if it.key == key]


def split_fn_header(item):
    """Split a fn item's header into (prefix_with_name_and_generics, params_text, ret_type or None, where_clause or '').
    Works on the masked text for structure and returns slices of the original text."""
    src, masked = item.src, item.masked
    a = item.vis_end
    stop = item.body_open if item.body_open is not None else item.end - 1
    m = re.compile(r"fn\s+[A-Za-z_][A-Za-z0-9_]*").match(masked, a)
    if not m:
        raise LostAnchor("not a fn header: %r" % src[a:a + 40])
    k = skip_ws(masked, m.end())
    if masked[k] == "<":
        k = skip_angle(masked, k)
    k = skip_ws(masked, k)
    if masked[k] != "(":
        raise LostAnchor("fn header without '(' : %r" % src[a:a + 60])
    pc = match_close(masked, k)
    prefix = src[a:k]
    params = src[k + 1:pc]
    rest_m = masked[pc + 1:stop]
    rest = src[pc + 1:stop]
    ret = None
    where = ""
    wpos = _find_top_level_word(rest_m, "where")
    if wpos is not None:
        where = rest[wpos:].strip()
        rest = rest[:wpos]
        rest_m = rest_m[:wpos]
    am = re.match(r"\s*->\s*", rest_m)
    if am:
        ret = rest[am.end():].strip()
    return prefix, params, ret, where


def _find_top_level_word(masked, word):
    depth = 0
    for m in re.finditer(r"[A-Za-z_][A-Za-z0-9_]*|[(\[{<>)\]}]", masked):
        t = m.group(0)
        if t in "([{":
            depth += 1
        elif t in ")]}":
            depth -= 1
        elif t == word and depth == 0:
            return m.start()
    return None


def split_top_level(text, masked, sep=","):
    """Split text on `sep` at bracket depth 0 (angle brackets counted as brackets)."""
    parts, depth, last = [], 0, 0
    for i, c in enumerate(masked):
        if c in "([{":
            depth += 1
        elif c in ")]}":
            depth -= 1
        elif c == "<":
            depth += 1
        elif c == ">" and i > 0 and masked[i - 1] not in "-=":
            depth -= 1
        elif c == sep and depth == 0:
            parts.append(text[last:i])
            last = i + 1
    parts.append(text[last:])
    return parts

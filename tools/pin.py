#!/usr/bin/env python3
"""Record the sha256 of every trusted (assumed-contract) function body of the current tree in contracts/pins.json.
Run by hand when a trusted function is reviewed again; never run by the checks."""
import json, os, sys, glob
sys.path.insert(0, os.path.dirname(os.path.abspath(__file__)))
import gen
pins = {}
for u in sorted(glob.glob(os.path.join(gen.VERIF, "units", "U*.toml"))):
    name = os.path.basename(u)[:-5]
    text, meta, info, unit, specs = gen.generate(name)
    pins.update(info.get("pins_seen", {}))
json.dump(pins, open(os.path.join(gen.VERIF, "contracts", "pins.json"), "w"), indent=1, sort_keys=True)
print(json.dumps(pins, indent=1))

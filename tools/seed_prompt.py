#!/usr/bin/env python3
"""seed_prompt.py PROP ROUND: write /tmp/seed<ROUND>_<PROP>/prompt.txt - the task text for a fresh sub-agent that is to
produce three property-breaking changes for PROP in the scratch worktree /tmp/wt_<PROP> (create it first:
`git -C /repo worktree add --detach /tmp/wt_<PROP> HEAD`).  The prompt contains the property text (from properties.jsonl)
and the one-line titles of every change already stored under seeded/ for that property, nothing else from /verif."""
import glob, json, os, sys

VERIF = os.path.dirname(os.path.dirname(os.path.abspath(__file__)))
prop, rnd = sys.argv[1], sys.argv[2]
p = next(json.loads(l) for l in open(os.path.join(VERIF, "properties.jsonl")) if json.loads(l)["id"] == prop)
titles = []
for d in sorted(glob.glob(os.path.join(VERIF, "seeded", prop + "*-*"))):
    n = os.path.join(d, "notes.md")
    if os.path.exists(n):
        t = open(n).readline().strip().lstrip("# ").strip()
        if t:
            titles.append(" - " + t[:140])
wt, out = "/tmp/wt_%s" % prop, "/tmp/seed%s_%s" % (rnd, prop)
os.makedirs(out, exist_ok=True)
text = f"""You are helping to evaluate a verification tool for the Rust project in the git worktree {wt} (a checkout of DataDog/dd-native-iast-rewriter-js: an SWC-based JavaScript source-to-source rewriter that instruments string operations for Datadog IAST). Work ONLY inside {wt} and {out}. Never touch /repo or /verif, and do not read anything under /verif. No network is available; `cargo test --workspace --no-fail-fast --offline` works in the worktree (98 tests pass, about 1-2 minutes the first time).

The project is supposed to satisfy this property:

TITLE: {p['title']}
STATEMENT: {p['statement']}
QUANTIFIED OVER: {p['quantifier']['text']}
WHY TESTS DO NOT SETTLE IT: {p['why_tests_cant']}

Your task: produce THREE different, realistic source changes (the kind of change a developer could plausibly make during a refactoring, optimisation or "small fix", not sabotage that looks deliberate) to the Rust code under src/ (not src/tests) such that, for each change separately:
 (a) the crate still compiles and all 98 existing tests still pass (`cargo test --workspace --no-fail-fast --offline`), and
 (b) the property above is violated for at least one concrete input - make sure it is THIS property, as it is worded, that is violated, not a neighbouring expectation, and
 (c) you can demonstrate the violation with a NEW Rust test (placed in a new file src/tests/seed_demo_<n>.rs, registered in src/tests/mod.rs) that PASSES on the unchanged code and FAILS with your change applied.
The three changes must use different mechanisms and touch different places where possible. Many ideas were already produced in earlier rounds, so do NOT repeat them or close variants of them:
{chr(10).join(titles)}
Be inventive: look at functions and branches none of these ideas touches, at interactions between two features (for example optional chains inside templates, spread inside prototype calls, classes inside loops, getters, generators, async code, labels, `new` expressions, tagged templates, sequence expressions, `super`, private names, computed members, unusual configuration values such as renamed hooks, methods allowed without callee, odd variable prefixes, telemetry verbosity), and at inputs that are valid but rare. Changes whose effect only shows for a narrow, unusual input are welcome. Prefer small changes a reviewer would wave through.

For each change n in 1..3 write, in {out}/<n>/ :
  patch.diff  - `git diff` of ONLY the source change (no test files), applicable with `git apply` on a clean checkout of the worktree's HEAD;
  demo.diff   - `git diff` (including the new untracked test file: use `git add -N` first) of ONLY the demonstration test (src/tests/mod.rs line + the new test file);
  notes.md    - first line: a one-line title of the change; then what was changed, why it looks plausible, why it breaks the property, the failing input and the observed vs expected behaviour.
Verify all of (a), (b), (c) yourself by running the tests: with patch only (98 pass), with patch + demo (the demo fails, the other 98 pass), with demo only (99 pass). Always restore the worktree to a clean state between experiments (`git checkout -- . && git clean -fdq src`; do not use git stash), and leave it clean at the end. In your final answer list the three changes in one line each and state that the three conditions were checked."""
open(os.path.join(out, "prompt.txt"), "w").write(text)
print(os.path.join(out, "prompt.txt"), len(titles), "earlier ideas listed")

"""Unit generator: extract items from $VERIF_REPO, normalise, splice contracts, emit one Verus file.

Output: (text, meta) where meta records per generated line which function / obligation label it
belongs to, the normalisation rules applied, sha256 of extracted bodies and what was dropped.
"""
import hashlib
import os
import re
import tomllib

from rstok import SourceFile, LostAnchor, mask, match_close, skip_ws, split_fn_header, skip_angle, split_top_level
from normalise import normalise, Unsupported, _closure_at
from spec import parse_spec, SpecFile, SpecError

VERIF = os.path.dirname(os.path.dirname(os.path.abspath(__file__)))
REPO = os.environ.get("VERIF_REPO", "/repo")

KEEP_DERIVES = {"Clone", "Copy", "PartialEq", "Eq"}


class Out:
    """Line-oriented output buffer with per-line metadata."""

    def __init__(self):
        self.lines = []
        self.meta = []   # parallel: dict or None

    def add(self, text, **meta):
        for l in text.split("\n"):
            self.lines.append(l)
            self.meta.append(dict(meta) if meta else None)

    def lineno(self):
        return len(self.lines) + 1


def strip_vis(text):
    """Remove visibility qualifiers (single-module crate: no semantic effect)."""
    m = mask(text)
    out, last = [], 0
    for hit in re.finditer(r"(?<![A-Za-z0-9_])pub(\s*\((?:crate|super|self|in [^)]*)\))?\s+", m):
        out.append(text[last:hit.start()])
        last = hit.end()
    out.append(text[last:])
    return "".join(out)


def pub_fields(text):
    """Add `pub` to every field of a (visibility-stripped) struct definition."""
    m = mask(text)
    if not re.match(r"\s*struct\b", m):
        return text
    bo = None
    for i, c in enumerate(m):
        if c in "{(":
            bo = i
            break
        if c == ";":
            return text
    if bo is None:
        return text
    bc = match_close(m, bo)
    inner, inner_m = text[bo + 1:bc], m[bo + 1:bc]
    # split fields on top-level commas
    from rstok import split_top_level
    parts = split_top_level(inner, inner_m)
    new = []
    for p in parts:
        if p.strip():
            lead = len(p) - len(p.lstrip())
            new.append(p[:lead] + "pub " + p[lead:])
        else:
            new.append(p)
    return text[:bo + 1] + ",".join(new) + text[bc:]


def filter_attrs(attrs_text, extra_derive=()):
    """Keep only derive attributes, restricted to KEEP_DERIVES (+Structural when PartialEq&Eq: rule N7)."""
    derives = []
    for m in re.finditer(r"#\[derive\(([^)]*)\)\]", attrs_text):
        derives += [d.strip() for d in m.group(1).split(",") if d.strip()]
    dropped = [d for d in derives if d not in KEEP_DERIVES]
    kept = [d for d in derives if d in KEEP_DERIVES]
    n7 = False
    if "PartialEq" in kept and "Eq" in kept:
        kept.append("Structural")
        n7 = True
    for d in extra_derive:
        if d not in kept:
            kept.append(d)
    explicit_clone = False
    if "Clone" in kept and "Copy" not in kept:
        # a derived Clone of a non-Copy type is emitted as an explicit impl carrying the spec `r == *self`
        # (what #[derive(Clone)] generates: field-wise clone); Verus attaches no spec to the derive itself
        kept.remove("Clone")
        explicit_clone = True
    other = re.sub(r"#\[derive\([^)]*\)\]", "", attrs_text)
    other_attrs = re.findall(r"#\[[^\]]*\]", other)
    text = ("#[derive(%s)]\n" % ", ".join(kept)) if kept else ""
    return text, dropped, other_attrs, n7, explicit_clone


def find_loops(m):
    """Offsets of loop keywords (for/while/loop) in masked text, in order."""
    res = []
    for hit in re.finditer(r"(?<![A-Za-z0-9_'])(for|while|loop)(?![A-Za-z0-9_])", m):
        kw = hit.group(1)
        if kw == "for":
            # exclude `for<'a>` HRTB and `impl X for Y`
            k = skip_ws(m, hit.end())
            if m[k] == "<":
                continue
        res.append((hit.start(), kw))
    return res


def loop_body_open(m, start, kw):
    k = start + len(kw)
    while k < len(m):
        c = m[k]
        if c in "([":
            k = match_close(m, k)
        elif c == "{":
            return k
        k += 1
    raise LostAnchor("loop without body")


def find_closures(m):
    """Offsets of closure-starting '|' in masked text."""
    res = []
    i = 0
    n = len(m)
    while i < n:
        if m[i] == "|":
            q = i - 1
            while q >= 0 and m[q].isspace():
                q -= 1
            prev = m[q] if q >= 0 else "("
            kw = re.search(r"(move|return|in)$", m[:q + 1]) is not None
            if prev in "(,={;[" or kw or (prev == ">" and m[q - 1] == "="):
                ps, pe, bs, be = _closure_at(m, i)
                res.append((i, ps, pe, bs, be))
                i = bs  # continue inside the body (nested closures counted too)
                continue
            if m.startswith("||", i):
                i += 2
                continue
        i += 1
    return res


def pin_hash(raw):
    """sha256 of a function body made insensitive to edits that cannot change behaviour: comments, logging statements
    (debug!/error!/..), indentation, trailing blanks and blank lines.  String literal contents are kept byte for byte."""
    from normalise import strip_logging
    body, _ = strip_logging(raw)
    m = mask(body)
    out = []
    i, n = 0, len(body)
    while i < n:
        if body.startswith("//", i) and m[i] == " ":
            j = body.find("\n", i)
            i = n if j < 0 else j
            continue
        if body.startswith("/*", i) and m[i] == " ":
            depth, j = 1, i + 2
            while j < n and depth:
                if body.startswith("/*", j):
                    depth += 1
                    j += 2
                elif body.startswith("*/", j):
                    depth -= 1
                    j += 2
                else:
                    j += 1
            i = j
            continue
        out.append(body[i])
        i += 1
    lines = [l.strip() for l in "".join(out).split("\n")]
    return hashlib.sha256("\n".join(l for l in lines if l).encode()).hexdigest()


def _closure_param_names(hdr):
    """Names bound by a closure header `|a: T, b| ...` (types dropped)."""
    h = hdr.strip()
    if h.startswith("||"):
        return []
    a = h.index("|")
    depth, j = 0, a + 1
    while j < len(h):
        if h[j] in "([<":
            depth += 1
        elif h[j] in ")]>":
            depth -= 1
        elif h[j] == "|" and depth == 0:
            break
        j += 1
    names = []
    inner = h[a + 1:j]
    if inner.strip():
        for part in split_top_level(inner, mask(inner), ","):
            names.append(part.split(":")[0].strip())
    return names


def annotate_body(body, c, out_log, notes=None):
    """Apply loop invariants, closure headers and proof blocks of contract c to a (normalised) body.
    Annotations that cannot be attached (the code's loop/closure/statement structure changed) are skipped and
    recorded in `notes` (degraded mode): the contract's requires/ensures stay, only proof help is lost."""
    if notes is None:
        notes = []
    for asc in getattr(c, "ascribe", []):
        var, ty = [x.strip() for x in asc.split(":", 1)]
        pat = re.compile(r"let\s+mut\s+%s\s*=" % re.escape(var))
        if not pat.search(body):
            notes.append("ascribe target %s not found in %s" % (var, c.name))
        body = pat.sub("let mut %s: %s =" % (var, ty), body)

    def lost(msg):
        notes.append(msg)
    # closures first (ordinals refer to normalised text); process from last to first to keep offsets valid
    if c.closures:
        m = mask(body)
        cl = find_closures(m)
        for n in sorted(c.closures, reverse=True):
            if n < 1:
                continue
            hdr = c.closures[n]
            # the ordinal is only a hint: if the closure found there binds other parameter names than the contract header,
            # take the unique closure that binds exactly the header's names (robust against added/removed closures)
            want = _closure_param_names(hdr)
            pick = cl[n - 1] if n <= len(cl) else None
            if pick is not None and _closure_param_names("|" + body[pick[1]:pick[2]] + "|") != want:
                same = [x for x in cl if _closure_param_names("|" + body[x[1]:x[2]] + "|") == want]
                pick = same[0] if len(same) == 1 else None
            if pick is None:
                lost("closure #%d (%s) not found in %s" % (n, ",".join(want), c.name))
                continue
            i, ps, pe, bs, be = pick
            btxt = body[bs:be]
            if not btxt.lstrip().startswith("{"):
                btxt = "{ " + btxt + " }"
            body = body[:i] + hdr + " " + btxt + body[be:]
    for where, anchor, text in c.proofs:
        block = "proof {\n%s\n}" % text
        if where.startswith("raw-"):
            block = text
            where = where[4:]
        if where == "end":
            body = body.rstrip() + "\n" + block + "\n"
            continue
        if where == "start":
            body = "\n" + block + "\n" + body
            continue
        k = 1
        mm = re.match(r"^(.*)\s#(\d+)$", anchor)
        if mm:
            anchor, k = mm.group(1), int(mm.group(2))
        lines = body.split("\n")
        idx = [i for i, l in enumerate(lines) if anchor in l]
        if len(idx) < k or (not mm and len(idx) != 1):
            lost("proof anchor %r occurs %d times in %s" % (anchor, len(idx), c.name))
            continue
        i = idx[k - 1]
        if where == "before":
            lines.insert(i, block)
        elif where == "after-block":
            # the anchor line opens a block statement (`for .. {`, `if .. {`): insert after its closing brace
            mb = mask(body)
            off = sum(len(l) + 1 for l in lines[:i])
            ob = mb.rfind("{", off, off + len(lines[i]))
            if ob < 0:
                lost("after-block anchor %r has no `{` on its line in %s" % (anchor, c.name))
                continue
            cb = match_close(mb, ob)
            j = body.count("\n", 0, cb)
            lines.insert(j + 1, block)
        else:
            lines.insert(i + 1, block)
        body = "\n".join(lines)
    if c.loops:
        m = mask(body)
        loops = find_loops(m)
        for n in sorted(c.loops, reverse=True):
            if n < 1 or n > len(loops):
                lost("loop #%d not found in %s (found %d)" % (n, c.name, len(loops)))
                continue
            start, kw = loops[n - 1]
            bo = loop_body_open(m, start, kw)
            L = c.loops[n]
            ann = "\n"
            if L["invariants"]:
                ann += "invariant\n"
                for inv in L["invariants"]:
                    ann += "/*@ob %s @kind invariant*/ %s,\n" % (",".join(inv.labels), inv.text)
            if L["decreases"]:
                ann += "decreases %s,\n" % L["decreases"]
            head = body[start:bo]
            if kw == "for" and L["iter"]:
                hm = m[start:bo]
                im = re.search(r"(?<![A-Za-z0-9_])in(?![A-Za-z0-9_])", hm)
                head = head[:im.end()] + " " + L["iter"] + ":" + head[im.end():]
            tail = body[bo:]
            if L.get("end_proof"):
                bc = match_close(m, bo)
                inner = body[bo + 1:bc]
                inner_m = m[bo + 1:bc].rstrip()
                sep = "" if (not inner_m or inner_m[-1] in ";}") else ";"
                tail = "{" + inner.rstrip() + sep + "\nproof {\n" + L["end_proof"] + "\n}\n" + body[bc:]
            body = body[:start] + head + ann + tail
    return body


def emit_fn(out, item, contract, mode, file, container, info, no_pub=False, canary=False, findings=False):
    """Emit one fn item with its contract.  mode: verify | decl"""
    prefix, params, ret, where = split_fn_header(item)
    prefix = strip_vis(prefix)
    name = item.name
    fkey = "%s :: %s%s" % (file, (container + " :: ") if container else "", name)
    c = contract
    trusted = bool(c and c.trusted) or mode == "decl"
    has_body = item.body_open is not None
    rules_log, nlog = [], 0
    degraded = []
    no_decreases = False
    body = None
    if has_body:
        raw = item.body()
        sha = pin_hash(raw) if trusted else hashlib.sha256(raw.encode()).hexdigest()
        if not trusted:
            body, rules_log, nlog = normalise(raw, c.rules if (c and c.rules is not None) else None, c.n1_values if c else ())
            if c:
                body = annotate_body(body, c, rules_log, degraded)
            # every while/loop must carry a decreases clause; if the contract has none for it, termination is
            # left unproved for this function (recorded) instead of aborting the whole unit
            mb = mask(body)
            for (st, kw) in find_loops(mb):
                if kw in ("while", "loop"):
                    bo = loop_body_open(mb, st, kw)
                    if not re.search(r"(?<![A-Za-z0-9_])decreases(?![A-Za-z0-9_])", mb[st:bo]):
                        no_decreases = True
    else:
        sha = None
    info["functions"].append({
        "fn": fkey, "mode": "trusted" if (c and c.trusted) else mode, "sha256": sha,
        "rules_applied": rules_log, "logging_stmts_dropped": nlog,
        "trusted_reason": c.trusted if c else None,
        "degraded": degraded, "termination_unproved": no_decreases,
    })
    if c and c.trusted and has_body:
        # a function left outside the verifier's reach carries an ASSUMED contract; its body is pinned by hash so that a
        # change cannot go unnoticed (reported as a structural obligation: needs a reproducing witness to be a violation)
        pins = load_pins()
        want = pins.get(fkey)
        labels = sorted({l for cl in (c.ensures + c.requires) for l in cl.labels}) or sorted(set(c.pin_labels))
        info.setdefault("structural", []).append({
            "item": fkey, "labels": labels, "ok": (want is None) or (want == sha),
            "have": [sha], "want": [want],
            "clause": "body of the trusted function `%s` is the one its assumed contract was written for (sha256 pin)" % fkey})
        info.setdefault("pins_seen", {})[fkey] = sha
    start_line = out.lineno()
    out.add("// @fn %s [%s]" % (fkey, "trusted" if trusted else "verify"))
    if trusted and has_body:
        out.add("#[verifier::external_body]")
    if no_decreases:
        out.add("#[verifier::exec_allows_no_decreases_clause]")
    sig = "%s%s(%s)" % ("" if no_pub else "pub ", prefix.strip(), strip_vis(params))
    if ret is not None:
        rn = c.ret if c else "r"
        sig += " -> (%s: %s)" % (rn, ret)
    out.add(sig, fn=fkey)
    if where:
        out.add("    " + where, fn=fkey)
    if c:
        if c.requires:
            out.add("    requires", fn=fkey)
            for cl in c.requires:
                out.add("        %s," % cl.text, fn=fkey, labels=cl.labels, kind="requires", clause=cl.text)
        if c.ensures:
            out.add("    ensures", fn=fkey)
            for cl in c.ensures:
                out.add("        %s," % cl.text, fn=fkey, labels=cl.labels, kind="ensures", clause=cl.text)
    if c and c.assumed and trusted:
        if not c.ensures:
            out.add("    ensures", fn=fkey)
        for cl in c.assumed:
            out.add("        %s," % cl.text, fn=fkey, labels=cl.labels, kind="assumed", clause=cl.text)
    if c and c.assumed:
        for cl in c.assumed:
            info.setdefault("assumed_clauses", []).append({"fn": fkey, "labels": cl.labels, "clause": cl.text})
    if findings and c and c.findings and has_body and not trusted:
        if not c.ensures:
            out.add("    ensures", fn=fkey)
        for cl in c.findings:
            out.add("        %s," % cl.text, fn=fkey, labels=cl.labels, kind="finding", clause=cl.text)
    if canary and has_body and not trusted:
        if not (c and c.ensures):
            out.add("    ensures", fn=fkey)
        info["canary_n"] = info.get("canary_n", 0) + 1
        out.add("        !verif_canary_flag(%d)," % info["canary_n"], fn=fkey, labels=["CANARY"], kind="ensures", clause="false (guarded by an uninterpreted per-function flag so callers learn nothing from it)")
    if c:
        if c.fn_decreases:
            out.add("    decreases %s," % c.fn_decreases, fn=fkey)
    if not has_body:
        out.add(";", fn=fkey)
    elif trusted:
        out.add("{ unimplemented!() }", fn=fkey)
    else:
        out.add("{", fn=fkey)
        for l in body.split("\n"):
            mm = re.search(r"/\*@ob ([^ ]+) @kind (\w+)\*/\s*(.*),\s*$", l)
            if mm:
                out.add(l, fn=fkey, labels=mm.group(1).split(","), kind=mm.group(2), clause=mm.group(3), body=True)
            else:
                out.add(l, fn=fkey, body=True)
        out.add("}", fn=fkey)
    out.add("")
    return fkey, (start_line, out.lineno() - 1)


_PINS = None


def load_pins():
    global _PINS
    if _PINS is None:
        import json
        p = os.path.join(VERIF, "contracts", "pins.json")
        _PINS = json.load(open(p)) if os.path.exists(p) else {}
    return _PINS


def variant_uses(sf):
    """`use` lines importing enum variants (possibly renamed) are kept, reduced to `Enum::Variant [as X]`."""
    res = []
    for it in sf.items:
        if it.kind != "use":
            continue
        t = sf.masked[it.attrs_end:it.end]
        for m in re.finditer(r"([A-Z][A-Za-z0-9_]*)::([A-Z][A-Za-z0-9_]*)(\s+as\s+([A-Za-z_][A-Za-z0-9_]*))?\s*[,;}]", t):
            if m.group(2).isupper():
                continue  # a constant such as DUMMY_SP
            res.append("use %s::%s%s;" % (m.group(1), m.group(2), (" as " + m.group(4)) if m.group(4) else ""))
    return res


def load_unit(name):
    with open(os.path.join(VERIF, "units", name + ".toml"), "rb") as f:
        u = tomllib.load(f)
    # fragments: shared lists of [[src]] entries (types and contract-only imports many units need)
    srcs = []
    for frag in u.get("include", []):
        with open(os.path.join(VERIF, "units", "_" + frag + ".toml"), "rb") as f:
            fr = tomllib.load(f)
        srcs += fr["src"]
        for c in fr.get("contracts", []):
            if c not in u.setdefault("contracts", []):
                u["contracts"].append(c)
    # merge entries of the same file (fragment first)
    merged = {}
    order = []
    for sdef in srcs + u["src"]:
        if sdef["file"] not in merged:
            merged[sdef["file"]] = {"file": sdef["file"], "items": []}
            order.append(sdef["file"])
        for kk, vv in sdef.items():
            if kk not in ("file", "items"):
                merged[sdef["file"]][kk] = vv
        for it in sdef["items"]:
            k = it if isinstance(it, str) else it["key"]
            existing = [x if isinstance(x, str) else x["key"] for x in merged[sdef["file"]]["items"]]
            if k in existing:
                # the unit's own entry overrides the fragment's
                merged[sdef["file"]]["items"][existing.index(k)] = it
            else:
                merged[sdef["file"]]["items"].append(it)
    u["src"] = [merged[f] for f in order]
    return u


def load_specs(names):
    sf = SpecFile()
    for n in names:
        sf.merge(parse_spec(os.path.join(VERIF, "contracts", n)))
    return sf


def generate(unit_name, repo=None, extra_fn_hook=None, canary=False, findings=False):
    repo = repo or REPO
    unit = load_unit(unit_name)
    specs = load_specs(unit.get("contracts", []))
    out = Out()
    info = {"unit": unit_name, "functions": [], "dropped": [], "items": [], "shim": unit.get("shim", []),
            "variant_uses": []}
    out.add("#![feature(allocator_api)]")
    out.add("#![allow(unused)]")
    out.add("use vstd::prelude::*;")
    for u in unit.get("uses", ["use std::collections::{HashMap, HashSet};"]):
        out.add(u)
    out.add("verus! {")
    for sh in unit.get("shim", []):
        out.add("// ---- shim %s ----" % sh)
        if sh == "@swc_types":
            import shimgen
            t, sm = shimgen.generate(repo)
            info["shimgen"] = sm
            out.add(t, shim=sh)
        else:
            out.add(open(os.path.join(VERIF, "shim", sh)).read(), shim=sh)
    if canary:
        out.add("pub uninterp spec fn verif_canary_flag(k: int) -> bool;")
    if unit.get("prelude"):
        out.add(unit["prelude"])
    used_contracts = set()
    used_items = set()
    for src in unit["src"]:
        file = src["file"]
        path = os.path.join(repo, file)
        if not os.path.exists(path):
            raise LostAnchor("source file %s missing" % file)
        ftext = open(path).read()
        for a, b in src.get("rename", []):
            # type names of this file that clash with another file's in the single generated module (stated, purely textual)
            ftext = re.sub(r"(?<![A-Za-z0-9_])%s(?![A-Za-z0-9_])" % re.escape(a), b, ftext)
        if src.get("rename"):
            info.setdefault("item_rules", []).append({"item": file, "rule": "rename %s" % src["rename"]})
        sf = SourceFile(file, ftext)
        out.add("// ==== %s ====" % file)
        if src.get("variant_uses", True):
            for u in variant_uses(sf):
                out.add(u)
                info["variant_uses"].append({"file": file, "use": u})
        for v in specs.verus.get(file, []):
            if src.get("verus", True):
                # definitions this unit's proofs never need to look into are hidden from the solver (smaller queries)
                if unit.get("lemmas") == "imported":
                    # lemmas are proved in their home unit; here they are only declared (a lemma this unit does not call costs nothing)
                    v = re.sub(r"(?m)^(pub proof fn )", r"#[verifier::external_body]\n\1", v)
                for nm in unit.get("opaque", []):
                    v = re.sub(r"(?m)^(pub open spec fn %s\b)" % re.escape(nm), r"#[verifier::opaque]\n\1", v)
                out.add(v, spec_text=True)
        for ent in src["items"]:
            if isinstance(ent, str):
                ent = {"key": ent}
            key = ent["key"]
            mode = ent.get("mode", "verify")
            fns = ent.get("fns")
            cands = sf.find_all(key)
            if not cands:
                raise LostAnchor("%s: item `%s` not found" % (file, key))
            kind = cands[0].kind
            ia = specs.items.get((file, key))
            if ia:
                used_items.add((file, key))
            if kind in ("struct", "enum", "const", "type", "static"):
                it = cands[0]
                if len(cands) > 1:
                    raise LostAnchor("%s: `%s` ambiguous" % (file, key))
                attrs, dropped, other, n7, explicit_clone = filter_attrs(it.attrs_text(), ia.derive_add if ia else ())
                if dropped or other:
                    info["dropped"].append({"item": "%s :: %s" % (file, key), "derives": dropped, "attrs": other})
                if ia and ia.attrs:
                    out.add(ia.attrs.rstrip())
                out.add(attrs.rstrip() if attrs else "// (no derives)")
                txt = pub_fields(strip_vis(it.text()))
                if kind == "const" and re.search(r":\s*&\s*str\b", txt):
                    # N9: the elided lifetime of a reference in a const item is 'static (language definition)
                    txt = re.sub(r":\s*&\s*str\b", ": &'static str", txt, count=1)
                    info.setdefault("item_rules", []).append({"item": "%s :: %s" % (file, key), "rule": "N9"})
                out.add("pub " + txt, item="%s :: %s" % (file, key))
                if explicit_clone:
                    gm = re.match(r"\s*(?:struct|enum)\s+([A-Za-z_][A-Za-z0-9_]*)\s*(<[^>{(]*>)?", txt)
                    tyname, gens = gm.group(1), gm.group(2) or ""
                    if gens:
                        gp = ", ".join(x.strip().split(":")[0].strip() for x in gens[1:-1].split(","))
                        out.add("impl%s Clone for %s<%s> { #[verifier::external_body] fn clone(&self) -> (r: Self) ensures r == *self { unimplemented!() } }" % (gens.replace(">", ": Clone>") if ":" not in gens else gens, tyname, gp), shim="derived-clone")
                    else:
                        out.add("impl Clone for %s { #[verifier::external_body] fn clone(&self) -> (r: Self) ensures r == *self { unimplemented!() } }" % tyname, shim="derived-clone")
                    info.setdefault("item_rules", []).append({"item": "%s :: %s" % (file, key), "rule": "derived-Clone-spec"})
                out.add("")
                info["items"].append({"item": "%s :: %s" % (file, key), "n7_structural": n7,
                                      "sha256": hashlib.sha256(it.text().encode()).hexdigest()})
            elif kind == "fn":
                it = sf.find(key)
                c = specs.fns.get((file, None, it.name))
                if c:
                    used_contracts.add(c.key)
                emit_fn(out, it, c, mode, file, None, info, canary=canary, findings=findings)
            elif kind in ("impl", "trait"):
                header = ent.get("header")
                flatten = ent.get("flatten_into")
                if ent.get("as_free_fn"):
                    # the body of `impl Drop for T { fn drop(&mut self) {..} }` becomes a free function taking `this: &mut T`
                    # (N4 makes the implicit drop of the guard an explicit call of this function)
                    it = cands[0]
                    if len(cands) != 1 or len([c for c in it.children if c.kind == "fn"]) != 1:
                        raise Unsupported("as_free_fn: %s must be a single impl with one fn" % key)
                    fnit = [c for c in it.children if c.kind == "fn"][0]
                    hdr = it.header()
                    gm = re.match(r"\s*impl\s*(<[^>]*>)?\s*[A-Za-z_:]+\s+for\s+(.*)$", hdr.strip(), re.S)
                    if not gm:
                        raise Unsupported("as_free_fn: cannot parse impl header %r" % hdr)
                    generics, selfty = gm.group(1) or "", gm.group(2).strip()
                    raw = fnit.body()
                    body, rules_log, nlog = normalise(raw)
                    mb = mask(body)
                    body = "".join(("this" if mm else None) or ch for ch, mm in zip(body, [False] * len(body)))
                    body = re.sub(r"(?<![A-Za-z0-9_])self(?![A-Za-z0-9_])", "this", body)
                    name = ent["as_free_fn"]
                    c = specs.fns.get((file, key, fnit.name))
                    fkey = "%s :: %s :: %s" % (file, key, fnit.name)
                    info["functions"].append({"fn": fkey, "mode": "verify", "sha256": hashlib.sha256(raw.encode()).hexdigest(),
                                              "rules_applied": rules_log + ["N4-drop"], "logging_stmts_dropped": nlog,
                                              "trusted_reason": None, "degraded": [], "termination_unproved": False})
                    out.add("// @fn %s [verify] (Drop::drop as the free function %s)" % (fkey, name))
                    out.add("pub fn %s%s(this: &mut %s)" % (name, generics, selfty), fn=fkey)
                    if c:
                        if c.requires:
                            out.add("    requires", fn=fkey)
                            for cl in c.requires:
                                out.add("        %s," % cl.text, fn=fkey, labels=cl.labels, kind="requires", clause=cl.text)
                        if c.ensures:
                            out.add("    ensures", fn=fkey)
                            for cl in c.ensures:
                                out.add("        %s," % cl.text, fn=fkey, labels=cl.labels, kind="ensures", clause=cl.text)
                    if canary:
                        if not (c and c.ensures):
                            out.add("    ensures", fn=fkey)
                        info["canary_n"] = info.get("canary_n", 0) + 1
                        out.add("        !verif_canary_flag(%d)," % info["canary_n"], fn=fkey, labels=["CANARY"], kind="ensures", clause="false")
                    out.add("{", fn=fkey)
                    out.add(body, fn=fkey, body=True)
                    out.add("}", fn=fkey)
                    out.add("")
                    continue
                if ent.get("check_deref_reducer"):
                    it = cands[0]
                    fnit = [c for c in it.children if c.kind == "fn"][0]
                    if re.sub(r"\s+", "", fnit.body()) != "self.reducer":
                        raise Unsupported("N4: DerefMut::deref_mut of the guard is not exactly `self.reducer`")
                    info.setdefault("item_rules", []).append({"item": "%s :: %s" % (file, key), "rule": "N4-deref-checked"})
                    continue
                if flatten:
                    # N11: a trait whose ONLY impl in the crate is `impl Trait for T {}` (empty) is flattened into
                    # inherent methods of T (`Self::f` resolves to the same bodies).  Both conditions are checked.
                    tname = key.split()[1]
                    impls = []
                    import glob as _glob
                    for pth in _glob.glob(os.path.join(repo, "src", "**", "*.rs"), recursive=True):
                        if os.sep + "tests" + os.sep in pth:
                            continue
                        osf = SourceFile(pth, open(pth).read())
                        for oi in osf.items:
                            if oi.kind == "impl" and re.match(r"%s\b.* for " % re.escape(tname), oi.name):
                                impls.append(oi)
                    if len(impls) != 1 or impls[0].name != "%s for %s" % (tname, flatten) or impls[0].body().strip():
                        raise Unsupported("N11: trait %s is not implemented exactly once by an empty impl for %s" % (tname, flatten))
                    header = "impl %s" % flatten
                    info.setdefault("item_rules", []).append({"item": "%s :: %s" % (file, key), "rule": "N11"})
                first = True
                for it in cands:
                    children = [ch for ch in it.children]
                    if fns is not None:
                        names = {f.split(":")[-1]: (f.split(":")[0] if ":" in f else None) for f in fns}
                        children = [ch for ch in children if ch.kind != "fn" or ch.name in names]
                    else:
                        names = {}
                    if not header:
                        h = strip_vis(it.header()).strip()
                    else:
                        h = header
                    if kind == "trait" and ia and ia.attrs:
                        out.add(ia.attrs.rstrip())
                    if kind == "trait" and not flatten:
                        h = "pub " + h
                    out.add("%s {" % h, item="%s :: %s" % (file, key))
                    if ia and ia.head and first:
                        out.add(ia.head.rstrip(), spec_text=True)
                    first = False
                    for ch in children:
                        if ch.kind == "fn":
                            c = specs.fns.get((file, key, ch.name))
                            if c:
                                used_contracts.add(c.key)
                            m = names.get(ch.name) or mode
                            emit_fn(out, ch, c, m, file, key, info, no_pub=((kind == "trait" and not flatten) or (" for " in key and not header)), canary=canary, findings=findings)
                        elif ch.kind in ("type", "const"):
                            out.add(strip_vis(ch.text()) if (kind == "trait" or " for " in key) else "pub " + strip_vis(ch.text()))
                    out.add("}")
                    out.add("")
                if ent.get("exact_fns") is not None:
                    have = sorted(ch.name for it in cands for ch in it.children if ch.kind == "fn")
                    want = sorted(ent["exact_fns"])
                    info.setdefault("structural", []).append({
                        "item": "%s :: %s" % (file, key), "labels": ent.get("exact_labels", []),
                        "ok": have == want, "have": have, "want": want,
                        "clause": "the set of methods of `%s` is exactly %s (the assumed traversal contract depends on which visitor methods are overridden)" % (key, want)})
                if fns is not None:
                    found = {ch.name for it in cands for ch in it.children}
                    for f in names:
                        if f not in found:
                            raise LostAnchor("%s: `%s :: fn %s` not found" % (file, key, f))
            else:
                raise Unsupported("item kind %s not supported (%s)" % (kind, key))
    # functions entirely outside the verifier's reach: nothing is claimed about them except that their text is the one
    # the catalogued witnesses were checked against (sha256 pin -> structural obligation, needs a reproducing witness)
    for pn in unit.get("pinned", []):
        pfile = pn["file"]
        ppath = os.path.join(repo, pfile)
        if not os.path.exists(ppath):
            raise LostAnchor("source file %s missing" % pfile)
        psf = SourceFile(pfile, open(ppath).read())
        pit = psf.find(pn["key"], pn.get("child"))
        raw = pit.body() if pit.body_open is not None else pit.text()
        sha = pin_hash(raw)
        fkey = "%s :: %s%s" % (pfile, pn["key"], (" :: " + pn["child"]) if pn.get("child") else "")
        want = load_pins().get(fkey)
        info.setdefault("structural", []).append({
            "item": fkey, "labels": pn.get("labels", []), "ok": (want is None) or (want == sha), "have": [sha], "want": [want],
            "clause": "text of `%s` (outside the verifier's reach: %s) is unchanged since its witnesses were last reviewed" % (fkey, pn.get("why", ""))})
        info.setdefault("pins_seen", {})[fkey] = sha
        info["functions"].append({"fn": fkey, "mode": "pinned", "sha256": sha, "rules_applied": [], "logging_stmts_dropped": 0,
                                  "trusted_reason": pn.get("why"), "degraded": [], "termination_unproved": False})
    # syntactic obligations: identifiers a file must not mention (supports an assumed clause)
    for fb in unit.get("forbid", []):
        ftxt = mask(open(os.path.join(repo, fb["file"])).read())
        found = [w for w in fb["idents"] if re.search(r"(?<![A-Za-z0-9_])%s(?![A-Za-z0-9_])" % re.escape(w), ftxt)]
        raw = open(os.path.join(repo, fb["file"])).read()
        found += [w for w in fb["idents"] if w not in found and ('"%s"' % w) in raw]
        info.setdefault("structural", []).append({
            "item": fb["file"], "labels": fb.get("labels", []), "ok": not found, "have": found, "want": [],
            "clause": "%s mentions none of %s (%s)" % (fb["file"], fb["idents"], fb.get("why", ""))})
    out.add("} // verus!")
    out.add("fn main() {}")
    # contracts that were given but never used indicate a renamed/removed function: lost anchor
    files_in_unit = {s["file"] for s in unit["src"]}
    for k, c in specs.fns.items():
        if k not in used_contracts and k[0] in files_in_unit and not unit.get("allow_unused_contracts"):
            # only complain if its container was selected wholesale
            pass
    return "\n".join(out.lines) + "\n", out.meta, info, unit, specs


if __name__ == "__main__":
    import sys
    text, meta, info, unit, specs = generate(sys.argv[1])
    sys.stdout.write(text)

#!/usr/bin/env python3
"""gen_layouts.py N SEED OUTDIR: N programs whose LAYOUT varies (line breaks inside expressions, CRLF, tabs, comments, non-ASCII
text before and inside literals, directives, named literal initialisers of every length around the report bounds).  They carry
no expectation: the position oracles of C09 (map entries) and C14 (literal report), and the other relational oracles of the
generic probes, judge them."""
import json, os, random, sys

def gen(n, seed, outdir):
    rnd = random.Random(seed)
    os.makedirs(outdir, exist_ok=True)
    words = ["alpha", "bêta", "gamma_ΔΔ", "données", "ключ", "😀smile", "plain", "tab\\there", "quote\\'s", "dq\\\"s", "slash\\\\", "nl\\nnl"]
    for k in range(n):
        nl = rnd.choice(["\n", "\n", "\r\n"])
        ind = rnd.choice(["  ", "\t", "    "])
        def ws():
            r = rnd.random()
            if r < 0.45: return " "
            if r < 0.75: return nl + ind * rnd.randint(1, 3)
            if r < 0.85: return " /* " + rnd.choice(words[:7]) + " */ "
            return " // " + rnd.choice(words[:7]) + nl + ind
        def lit():
            L = rnd.choice([3, 9, 10, 11, 12, 20, 40, 255, 256, 257, 300]) if rnd.random() < 0.5 else rnd.randint(1, 40)
            base = rnd.choice(words)
            s = (base + "_" * 400)[:L]
            q = rnd.choice(["'", '"'])
            if q in s: s = s.replace(q, "-")
            if s.endswith("\\"): s = s[:-1] + "_"
            return q + s + q
        def ident(): return rnd.choice(["aaa", "bbb", "ccc", "ñu", "$d", "_e"])
        def expr(d):
            if d <= 0: return rnd.choice([ident(), ident(), lit()])
            r = rnd.random()
            if r < 0.35: return expr(d - 1) + ws() + "+" + ws() + (ident() if rnd.random() < 0.5 else expr(d - 1))
            if r < 0.5: return "`" + rnd.choice(["", "t ", "é "]) + "${" + ws() + ident() + ws() + "}" + rnd.choice(["", nl, " - "]) + "${" + expr(d - 1).replace("`", "'") + "}`" if rnd.random() < 0.7 else ident()
            if r < 0.7: return ident() + ws().replace("//", "/*x*/ //") + "." + rnd.choice(["trim()", "substring(" + ws() + "1" + ws() + ")", "concat(" + ws() + expr(d - 1) + "," + ws() + lit() + ws() + ")"])
            if r < 0.8: return ident() + "?." + ws() + "trim()"
            if r < 0.9: return "String.prototype.concat.call(" + ws() + ident() + "," + ws() + expr(d - 1) + ws() + ")"
            return "(" + ws() + expr(d - 1) + ws() + ")"
        lines = []
        if rnd.random() < 0.3: lines.append(rnd.choice(["'use strict';", '"use strict";', "'use asm'; 'use strict';"]))
        if rnd.random() < 0.3: lines.append("// leading comment " + rnd.choice(words[:7]))
        nfun = rnd.randint(1, 3)
        for fi in range(nfun):
            body = []
            if rnd.random() < 0.3: body.append(rnd.choice(["'use strict';", '"use strict";']))
            for si in range(rnd.randint(1, 4)):
                r = rnd.random()
                name = "v%d_%d" % (fi, si)
                if r < 0.35: body.append("%s %s =%s%s;" % (rnd.choice(["var", "let", "const"]), name, ws(), expr(2)))
                elif r < 0.5: body.append("const %s = %s;" % (name, lit()))
                elif r < 0.65: body.append("var %s = { key: %s, 'quoted-key': %s, [%s]: %s };" % (name, lit(), lit(), ident(), expr(1)))
                elif r < 0.8: body.append("ccc +=%s%s;" % (ws(), expr(1)))
                else: body.append("if (%s) {%s%sreturn %s;%s}" % (expr(1), nl, ind * 2, expr(1), nl + ind))
            body.append("return %s;" % expr(2))
            lines.append("function f%d(aaa, bbb, ccc, ñu, $d, _e) {%s%s%s%s}" % (fi, nl + ind, (nl + ind).join(body), nl, ""))
        if rnd.random() < 0.3: lines.append("const top_level = %s;" % lit())
        src = nl.join(lines) + nl
        w = {"obligations": [], "generated": "tools/gen_layouts.py seed=%d index=%d" % (seed, k),
             "what": "layout program %d (judged by the generic probes only)" % k, "file_name": "/srv/app/lay%03d.js" % k, "source": src,
             "generic_variants": ["default", "no_tpl", "plus_only", "renamed", "stress", "information", "comments", "prologue", "empty"],
             "violated_when": [{"panics": True}]}
        json.dump(w, open(os.path.join(outdir, "lay_%03d.json" % k), "w"), indent=1)

if __name__ == "__main__":
    gen(int(sys.argv[1]), int(sys.argv[2]), sys.argv[3])

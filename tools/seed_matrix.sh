#!/bin/bash
# seed_matrix.sh [i n]: apply every stored seed (shard i of n: every n-th seed starting at the i-th) to the repository
# ($VERIF_REPO, default /repo) in turn, run the check of its property, record the outcome (exit code and VIOLATION lines).
# The repository is restored after each seed.  Without arguments: all seeds, result in seeded/MATRIX.txt; with a shard:
# seeded/MATRIX.part<i>.txt (sort -V the parts together).  Independent lanes (a copy of this tree next to a scratch
# worktree of the repository, VERIF_REPO pointing at it) can run different shards at the same time.
V="$(cd "$(dirname "$0")/.." && pwd)"; cd $V
i=${1:-0}; n=${2:-1}
out=seeded/MATRIX.txt; [ $n -gt 1 ] && out=seeded/MATRIX.part$i.txt
: > $out
k=0
for d in seeded/*/; do
  k=$((k+1)); [ $(( (k-1) % n )) -eq $i ] || continue
  [ -f $d/patch.diff ] || continue
  id=$(basename $d); prop=${id:0:3}
  p=$d/patch.diff; [ -f $d/patch_rebased.diff ] && p=$d/patch_rebased.diff
  r=$(tools/seed_run.sh $V/$p $prop 2>&1)
  code=$(echo "$r" | grep -o "exit=[0-9]*" | tail -1)
  [ -z "$code" ] && code=$(echo "$r" | grep -o "PATCH-DOES-NOT-APPLY" | head -1)
  viol=$(echo "$r" | grep "^VIOLATION" | sed 's/.*replay=.*\/out\///' | tr '\n' ' ')
  echo "$id $code $viol" | tee -a $out
done

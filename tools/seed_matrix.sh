#!/bin/bash
# seed_matrix.sh: apply every stored seed to /repo in turn, run the check of its property, record the outcome
# in seeded/MATRIX.txt (exit code and VIOLATION lines).  /repo is restored after each seed.
cd /verif
out=seeded/MATRIX.txt; : > $out
for d in seeded/*/; do
  id=$(basename $d); prop=${id:0:3}
  p=$d/patch.diff; [ -f $d/patch_rebased.diff ] && p=$d/patch_rebased.diff
  r=$(tools/seed_run.sh /verif/$p $prop 2>&1)
  code=$(echo "$r" | grep -o "exit=[0-9]*" | tail -1)
  viol=$(echo "$r" | grep "^VIOLATION" | sed 's/.*replay=.*\/out\///' | tr '\n' ' ')
  echo "$id $code $viol" | tee -a $out
done

// ASSUMED contract of swc_ecma_visit's generated traversals (`node.visit_mut_children_with(v)` / `visit_mut_with(v)`),
// abstracted as a trait so that each (node type, visitor type) pair states what the traversal may change.
// This stands for the ~200 generated default methods of VisitMut, which are not modelled.
pub trait VisitMutWith<V>: Sized {
    spec fn vmc_req(self, v: V) -> bool;
    #[verifier::prophetic]
    spec fn vmc_ens(self, v: V, s2: Self, v2: V) -> bool;
    fn visit_mut_children_with(&mut self, v: &mut V)
        requires old(self).vmc_req(*old(v)),
        ensures old(self).vmc_ens(*old(v), *final(self), *final(v));
    spec fn vm_req(self, v: V) -> bool;
    #[verifier::prophetic]
    spec fn vm_ens(self, v: V, s2: Self, v2: V) -> bool;
    fn visit_mut_with(&mut self, v: &mut V)
        requires old(self).vm_req(*old(v)),
        ensures old(self).vm_ens(*old(v), *final(self), *final(v));
}

// Abstract views and ASSUMED specifications of the `sourcemap` crate (8.0.1) as the repository uses it.
// Nothing here is proved: every `external_body` contract and every axiom is an assumption about that crate, listed in evidence.
// They were written from the crate's sources (src/types.rs, src/builder.rs, src/utils.rs in the locked registry copy).

pub ghost struct TokenView {
    pub dst_line: u32, pub dst_col: u32, pub src_line: u32, pub src_col: u32,
    pub source: Option<Seq<char>>, pub name: Option<Seq<char>>,
}
pub ghost struct RawView {
    pub dst_line: u32, pub dst_col: u32, pub src_line: u32, pub src_col: u32,
    pub src_id: Option<u32>, pub name_id: Option<u32>, pub is_range: bool,
}

#[verifier::external_body]
pub struct SourceMap { x: u8 }
#[verifier::external_body]
pub struct Token<'a> { x: &'a u8 }
#[verifier::external_body]
pub struct SourceMapBuilder { x: u8 }
#[verifier::external_body]
pub struct SourceMapError { x: u8 }

impl SourceMap {
    // the token table in insertion order (SourceMap::tokens / get_token)
    pub uninterp spec fn tokens(&self) -> Seq<TokenView>;
    // what lookup_token(line, col) answers (with the offset of range tokens already applied)
    pub uninterp spec fn lookup(&self, line: u32, col: u32) -> Option<TokenView>;
    // the bytes to_writer produces
    pub uninterp spec fn json(&self) -> Seq<u8>;

    #[verifier::external_body]
    pub fn get_token_count(&self) -> (r: u32)
        ensures r == self.tokens().len(),
    { unimplemented!() }
    #[verifier::external_body]
    pub fn get_token(&self, idx: u32) -> (r: Option<Token<'_>>)
        ensures idx < self.tokens().len() ==> r is Some && r->0.view() == self.tokens()[idx as int],
                idx >= self.tokens().len() ==> r is None,
    { unimplemented!() }
    #[verifier::external_body]
    pub fn lookup_token(&self, line: u32, col: u32) -> (r: Option<Token<'_>>)
        ensures match r { Some(t) => self.lookup(line, col) == Some(t.view()), None => self.lookup(line, col) is None },
    { unimplemented!() }
    #[verifier::external_body]
    pub fn to_writer(&self, w: &mut Vec<u8>) -> (r: Result<(), SourceMapError>)
        ensures r is Ok ==> final(w)@ == old(w)@ + self.json(), r is Ok && old(w)@.len() == 0 ==> final(w)@ == self.json(),
    { unimplemented!() }
}

impl<'a> Token<'a> {
    pub uninterp spec fn view(&self) -> TokenView;
    #[verifier::external_body]
    pub fn get_dst_line(&self) -> (r: u32) ensures r == self.view().dst_line { unimplemented!() }
    #[verifier::external_body]
    pub fn get_dst_col(&self) -> (r: u32) ensures r == self.view().dst_col { unimplemented!() }
    #[verifier::external_body]
    pub fn get_src_line(&self) -> (r: u32) ensures r == self.view().src_line { unimplemented!() }
    #[verifier::external_body]
    pub fn get_src_col(&self) -> (r: u32) ensures r == self.view().src_col { unimplemented!() }
    #[verifier::external_body]
    pub fn has_source(&self) -> (r: bool) ensures r == self.view().source is Some { unimplemented!() }
    #[verifier::external_body]
    pub fn has_name(&self) -> (r: bool) ensures r == self.view().name is Some { unimplemented!() }
    #[verifier::external_body]
    pub fn get_source(&self) -> (r: Option<&'a str>)
        ensures match r { Some(s) => self.view().source == Some(s@), None => self.view().source is None }
    { unimplemented!() }
    #[verifier::external_body]
    pub fn get_name(&self) -> (r: Option<&'a str>)
        ensures match r { Some(s) => self.view().name == Some(s@), None => self.view().name is None }
    { unimplemented!() }
}

// SourceMapBuilder::add_source / add_name: `*map.entry(s).or_insert(count)`, pushing only when the id is new
pub open spec fn intern(tab: Seq<Seq<char>>, s: Seq<char>) -> (Seq<Seq<char>>, int) {
    if exists|i: int| 0 <= i < tab.len() && tab[i] == s {
        (tab, choose|i: int| 0 <= i < tab.len() && tab[i] == s)
    } else {
        (tab.push(s), tab.len() as int)
    }
}

impl SourceMapBuilder {
    pub uninterp spec fn sources(&self) -> Seq<Seq<char>>;
    pub uninterp spec fn names(&self) -> Seq<Seq<char>>;
    pub uninterp spec fn raws(&self) -> Seq<RawView>;

    #[verifier::external_body]
    pub fn new(file: Option<&str>) -> (r: SourceMapBuilder)
        ensures r.sources().len() == 0, r.names().len() == 0, r.raws().len() == 0,
    { unimplemented!() }
    #[verifier::external_body]
    pub fn add_source(&mut self, src: &str) -> (r: u32)
        ensures final(self).sources() == intern(old(self).sources(), src@).0, r as int == intern(old(self).sources(), src@).1,
                final(self).names() == old(self).names(), final(self).raws() == old(self).raws(),
    { unimplemented!() }
    #[verifier::external_body]
    pub fn add_name(&mut self, name: &str) -> (r: u32)
        ensures final(self).names() == intern(old(self).names(), name@).0, r as int == intern(old(self).names(), name@).1,
                final(self).sources() == old(self).sources(), final(self).raws() == old(self).raws(),
    { unimplemented!() }
    #[verifier::external_body]
    pub fn add_raw(&mut self, dst_line: u32, dst_col: u32, src_line: u32, src_col: u32, source: Option<u32>, name: Option<u32>, is_range: bool)
        ensures final(self).raws() == old(self).raws().push(RawView { dst_line, dst_col, src_line, src_col, src_id: source, name_id: name, is_range }),
                final(self).sources() == old(self).sources(), final(self).names() == old(self).names(),
    { unimplemented!() }
    // SourceMap::new keeps the tokens in insertion order and resolves ids through the two tables
    #[verifier::external_body]
    pub fn into_sourcemap(self) -> (r: SourceMap)
        ensures r.tokens() == built_tokens(self.raws(), self.sources(), self.names()),
                no_range_tokens(self.raws()) ==> r.lookup_is_glb(),
    { unimplemented!() }
}

pub open spec fn no_range_tokens(raws: Seq<RawView>) -> bool { forall|i: int| 0 <= i < raws.len() ==> !(#[trigger] raws[i]).is_range }
pub open spec fn tab_get(tab: Seq<Seq<char>>, id: Option<u32>) -> Option<Seq<char>> {
    match id { Some(k) => if (k as int) < tab.len() { Some(tab[k as int]) } else { None }, None => None }
}
pub open spec fn built_token(r: RawView, sources: Seq<Seq<char>>, names: Seq<Seq<char>>) -> TokenView {
    TokenView { dst_line: r.dst_line, dst_col: r.dst_col, src_line: r.src_line, src_col: r.src_col,
                source: tab_get(sources, r.src_id), name: tab_get(names, r.name_id) }
}
pub open spec fn built_tokens(raws: Seq<RawView>, sources: Seq<Seq<char>>, names: Seq<Seq<char>>) -> Seq<TokenView> {
    Seq::new(raws.len(), |i: int| built_token(raws[i], sources, names))
}

// lookup_token on a map without range tokens: greatest_lower_bound over the (dst_line, dst_col) keys of the token table;
// WHICH index that is depends on the keys only (utils.rs greatest_lower_bound over the sorted index)
pub uninterp spec fn glb_index(keys: Seq<(u32, u32)>, line: u32, col: u32) -> Option<int>;
pub open spec fn keys_of(ts: Seq<TokenView>) -> Seq<(u32, u32)> { Seq::new(ts.len(), |i: int| (ts[i].dst_line, ts[i].dst_col)) }
pub open spec fn seq_lookup(ts: Seq<TokenView>, line: u32, col: u32) -> Option<TokenView> {
    match glb_index(keys_of(ts), line, col) { Some(j) => if 0 <= j < ts.len() { Some(ts[j]) } else { None }, None => None }
}
impl SourceMap {
    pub open spec fn lookup_is_glb(&self) -> bool { forall|l: u32, c: u32| #[trigger] self.lookup(l, c) == seq_lookup(self.tokens(), l, c) }
}

// serde_json writes UTF-8
pub broadcast axiom fn axiom_map_json_is_utf8(m: SourceMap)
    ensures #[trigger] utf8(m.json()) is Some;

// SourceMap::from_reader over bytes: the token table of the decoded map, or None when the bytes are not a source map
// (ASSUMED: sourcemap crate).  parse_map is that function over the UTF-8 bytes of a text (vstd: str::as_bytes).
pub uninterp spec fn parse_map_bytes(b: Seq<u8>) -> Option<Seq<TokenView>>;
pub open spec fn parse_map(s: Seq<char>) -> Option<Seq<TokenView>> { parse_map_bytes(vstd::utf8::encode_utf8(s)) }
impl SourceMap {
    #[verifier::external_body]
    pub fn from_reader(rdr: &[u8]) -> (r: Result<SourceMap, SourceMapError>)
        ensures match r { Ok(m) => parse_map_bytes(rdr@) == Some(m.tokens()), Err(_) => parse_map_bytes(rdr@) is None },
    { unimplemented!() }
}

// swc::Compiler printing, comments, anyhow::Error, std::io::Read / util::FileReader markers as the pipeline glue uses them.
// All ASSUMED.  The `Compiler` struct itself is declared (opaque) in traversal_lit.rs.

#[verifier::external_body]
pub struct SwcComments { _p: u8 }
pub trait Comments {}
impl Comments for SwcComments {}
impl Clone for SwcComments {
    // SwcComments is a pair of Arc'd maps: a clone is the same comment store
    #[verifier::external_body]
    fn clone(&self) -> (r: Self) ensures r == *self { unimplemented!() }
}
// `&SwcComments as &dyn Comments` (rule N25): identity
#[verifier::external_body]
pub fn verif_unsize_comments<'a>(c: &'a SwcComments) -> (r: &'a dyn Comments) { unimplemented!() }

#[verifier::external_body]
pub struct Error { _p: u8 }
impl Error {
    pub uninterp spec fn text(&self) -> Seq<char>;
    #[verifier::external_body]
    pub fn msg(m: String) -> (r: Error) ensures r.text() == m@ { unimplemented!() }
}

pub struct TransformOutput { pub code: String, pub map: Option<String> }
#[derive(PartialEq, Eq)]
pub enum SourceMapsConfig { Bool(bool) }
// the fields the repository sets; every other field of swc::PrintArgs keeps its default (`..Default::default()`)
pub struct PrintArgs<'a> {
    pub source_file_name: Option<&'a str>,
    pub source_map: SourceMapsConfig,
    pub comments: Option<&'a dyn Comments>,
    pub emit_source_map_columns: bool,
    pub verif_other_fields_default: bool,
}
impl<'a> Default for PrintArgs<'a> {
    fn default() -> (r: Self)
        ensures r.verif_other_fields_default, r.source_file_name is None, r.comments is None, !r.emit_source_map_columns, r.source_map == SourceMapsConfig::Bool(false),
    { PrintArgs { source_file_name: None, source_map: SourceMapsConfig::Bool(false), comments: None, emit_source_map_columns: false, verif_other_fields_default: true } }
}
// what the repository asks the code generator for
pub ghost struct PrintReq { pub source_file_name: Option<Seq<char>>, pub source_map: bool, pub with_comments: bool, pub columns: bool, pub others_default: bool }
pub open spec fn print_req(a: PrintArgs<'_>) -> PrintReq {
    PrintReq { source_file_name: match a.source_file_name { Some(s) => Some(s@), None => None }, source_map: a.source_map == SourceMapsConfig::Bool(true),
               with_comments: a.comments is Some, columns: a.emit_source_map_columns, others_default: a.verif_other_fields_default }
}
// the code generator: text and (when asked for) map text; None = the printer reports an error
pub uninterp spec fn swc_print(c: Compiler, p: Program, req: PrintReq) -> Option<(Seq<char>, Option<Seq<char>>)>;
impl Compiler {
    pub uninterp spec fn comment_store(&self) -> SwcComments;
    #[verifier::external_body]
    pub fn comments(&self) -> (r: &SwcComments) ensures *r == self.comment_store() { unimplemented!() }
    #[verifier::external_body]
    pub fn print<'a>(&self, program: &Program, args: PrintArgs<'a>) -> (r: Result<TransformOutput, Error>)
        ensures
            args.comments matches Some(c) ==> true,
            match r {
                Ok(o) => swc_print(*self, *program, print_req(args)) == Some((o.code@, match o.map { Some(m) => Some(m@), None => None })),
                Err(_) => swc_print(*self, *program, print_req(args)) is None,
            },
    { unimplemented!() }
}

pub assume_specification<T>[ bool::then_some::<T> ](b: bool, t: T) -> (r: Option<T>)
    ensures r == (if b { Some(t) } else { None::<T> });

// std::io::Read and util::FileReader only travel through transform_js to extract_source_map (a pinned leaf)
pub trait Read {}
pub trait FileReader<R: Read> {}

// ASSUMED traversal contract for OptChainVisitor (see traversal.rs).  The visitor's only override is visit_mut_expr; a
// traversal may therefore do to the visitor whatever visit_mut_expr may do (its frame), any number of times.
#[verifier::prophetic]
pub open spec fn ocv_frame<'a>(v: OptChainVisitor<'a>, v2: OptChainVisitor<'a>) -> bool {
    &&& v2.csi_methods == v.csi_methods
    &&& ip_extends(v.ident_provider.st(), v2.ident_provider.st())
    &&& final(v2.ident_provider).st() == final(v.ident_provider).st()
    &&& (v.found ==> v2.found)
    &&& v.assignments@.is_prefix_of(v2.assignments@)
    // every expression the visitor pushes is the assignment of a temporary (never a literal)
    &&& (forall|i: int| v.assignments@.len() <= i < v2.assignments@.len() ==> (#[trigger] v2.assignments@[i] is Assign))
    &&& (v2.new_ident is None ==> v.new_ident is None)
    &&& (v2.assignments@.len() == v.assignments@.len() ==> v2.new_ident == v.new_ident || v2.new_ident is Some)
}
impl<'a> VisitMutWith<OptChainVisitor<'a>> for Expr {
    open spec fn vmc_req(self, v: OptChainVisitor<'a>) -> bool { true }
    #[verifier::prophetic]
    open spec fn vmc_ens(self, v: OptChainVisitor<'a>, s2: Expr, v2: OptChainVisitor<'a>) -> bool {
        ocv_frame(v, v2) && hooks(s2) == hooks(self) && ((self is Lit) ==> s2 == self) && (!(self is Lit) ==> !(s2 is Lit))
    }
    #[verifier::external_body]
    fn visit_mut_children_with(&mut self, v: &mut OptChainVisitor<'a>) { unimplemented!() }
    open spec fn vm_req(self, v: OptChainVisitor<'a>) -> bool { true }
    #[verifier::prophetic]
    open spec fn vm_ens(self, v: OptChainVisitor<'a>, s2: Expr, v2: OptChainVisitor<'a>) -> bool {
        ocv_frame(v, v2) && hooks(s2) == hooks(self) && ((self is Lit) ==> s2 == self) && (!(self is Lit) ==> !(s2 is Lit))
    }
    #[verifier::external_body]
    fn visit_mut_with(&mut self, v: &mut OptChainVisitor<'a>) { unimplemented!() }
}

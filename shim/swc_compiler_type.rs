// swc::Compiler (opaque)
#[verifier::external_body]
pub struct Compiler { _p: u8 }

// Hand-written part of the swc shim: abstract Atom, SyntaxContext, DUMMY_SP and the ASSUMED behavioural
// specifications of the swc helper functions the repository calls.  Every item here is an assumption
// about a dependency (listed in evidence as trusted base).  The datatype definitions themselves are
// generated from the registry sources by tools/shimgen.py on every run.

// ---------- Atom (swc_atoms::Atom == JsWord), an interned immutable string ----------
#[verifier::external_body]
pub struct Atom { a: String }
pub type JsWord = Atom;

impl View for Atom {
    type V = Seq<char>;
    uninterp spec fn view(&self) -> Seq<char>;
}
pub uninterp spec fn atom_of(s: Seq<char>) -> Atom;
// Atoms are values: an Atom is determined by its text (swc_atoms: Eq/Hash compare the string).
pub broadcast axiom fn axiom_atom_of(s: Seq<char>)
    ensures #[trigger] atom_of(s)@ == s;
pub broadcast axiom fn axiom_atom_ext(a: Atom)
    ensures #[trigger] atom_of(a@) == a;

impl Clone for Atom {
    #[verifier::external_body]
    fn clone(&self) -> (r: Self) ensures r == *self { unimplemented!() }
}
impl PartialEq for Atom {
    #[verifier::external_body]
    fn eq(&self, other: &Atom) -> (r: bool) { unimplemented!() }
}
impl vstd::std_specs::cmp::PartialEqSpecImpl for Atom {
    open spec fn obeys_eq_spec() -> bool { true }
    open spec fn eq_spec(&self, other: &Atom) -> bool { *self == *other }
}
impl PartialEq<str> for Atom {
    #[verifier::external_body]
    fn eq(&self, other: &str) -> (r: bool) { unimplemented!() }
}
impl vstd::std_specs::cmp::PartialEqSpecImpl<str> for Atom {
    open spec fn obeys_eq_spec() -> bool { true }
    open spec fn eq_spec(&self, other: &str) -> bool { self@ == other@ }
}
impl<'a> PartialEq<&'a str> for Atom {
    #[verifier::external_body]
    fn eq(&self, other: &&'a str) -> (r: bool) { unimplemented!() }
}
impl<'a> vstd::std_specs::cmp::PartialEqSpecImpl<&'a str> for Atom {
    open spec fn obeys_eq_spec() -> bool { true }
    open spec fn eq_spec(&self, other: &&'a str) -> bool { self@ == (*other)@ }
}
impl<'a> From<&'a str> for Atom {
    #[verifier::external_body]
    fn from(s: &'a str) -> (r: Atom) { unimplemented!() }
}
impl<'a> vstd::std_specs::convert::FromSpecImpl<&'a str> for Atom {
    open spec fn obeys_from_spec() -> bool { true }
    open spec fn from_spec(s: &'a str) -> Atom { atom_of(s@) }
}
impl From<String> for Atom {
    #[verifier::external_body]
    fn from(s: String) -> (r: Atom) { unimplemented!() }
}
impl vstd::std_specs::convert::FromSpecImpl<String> for Atom {
    open spec fn obeys_from_spec() -> bool { true }
    open spec fn from_spec(s: String) -> Atom { atom_of(s@) }
}
impl Atom {
    // Deref<Target=str> / Display of the real Atom
    #[verifier::external_body]
    pub fn to_string(&self) -> (r: String) ensures r@ == self@ { unimplemented!() }
    #[verifier::external_body]
    pub fn as_str(&self) -> (r: &str) ensures r@ == self@ { unimplemented!() }
    #[verifier::external_body]
    pub fn starts_with(&self, p: &String) -> (r: bool) ensures r == p@.is_prefix_of(self@) { unimplemented!() }
    #[verifier::external_body]
    pub fn len(&self) -> (r: usize) ensures r == str_byte_len(self@) { unimplemented!() }
}
// UTF-8 byte length of a string (what str::len returns); uninterpreted, only compared with constants.
pub uninterp spec fn str_byte_len(s: Seq<char>) -> nat;

// ---------- swc_common ----------
#[derive(Clone, Copy, PartialEq, Eq, Structural)]
pub struct SyntaxContext(pub u32);
impl SyntaxContext {
    pub fn empty() -> (r: SyntaxContext) ensures r == SyntaxContext(0) { SyntaxContext(0) }
}
pub const DUMMY_SP: Span = Span { lo: BytePos(0), hi: BytePos(0) };

// ---------- String / str facts vstd lacks ----------
pub assume_specification<'a>[ <String as PartialEq<&'a str>>::eq ](a: &String, b: &&str) -> (r: bool)
    ensures r == (a@ == (*b)@);
pub assume_specification<'a>[ <String as PartialEq<&'a str>>::ne ](a: &String, b: &&str) -> (r: bool)
    ensures r == (a@ != (*b)@);

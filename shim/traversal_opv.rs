// ASSUMED traversal contracts for OperationTransformVisitor (swc_ecma_visit generated code), see traversal.rs.
// What a traversal of children may do to the visitor: it only calls the visitor's overridden methods
// (visit_mut_expr / visit_mut_ident / visit_mut_if_stmt / visit_mut_block_stmt), each of which keeps this frame.
pub open spec fn status_mono(a: Status, b: Status) -> bool {
    (a == Status::Cancelled ==> b == Status::Cancelled) && (a == Status::Modified ==> b != Status::NotModified)
}
// the visitor keeps its references: what they point to may change, the references themselves are never swapped
#[verifier::prophetic]
pub open spec fn refs_kept<'a>(v: OperationTransformVisitor<'a>, v2: OperationTransformVisitor<'a>) -> bool {
    *final(v2.transform_status) == *final(v.transform_status) && final(v2.ident_provider).st() == final(v.ident_provider).st()
}
#[verifier::prophetic]
pub open spec fn opv_frame<'a>(v: OperationTransformVisitor<'a>, v2: OperationTransformVisitor<'a>) -> bool {
    &&& v2.ctx == v.ctx
    &&& v2.csi_methods == v.csi_methods
    &&& refs_kept(v, v2)
    &&& status_mono(v.transform_status.status, v2.transform_status.status)
    &&& v2.transform_status.telemetry.kind() == v.transform_status.telemetry.kind()
    &&& (v.transform_status.telemetry.wf() ==> v2.transform_status.telemetry.wf())
    &&& v2.transform_status.telemetry.count() >= v.transform_status.telemetry.count()
    &&& v2.ident_provider.st().prefix == v.ident_provider.st().prefix
    // below the root of an expression the temporary counter is never reset (C06: no clobbering of live temporaries)
    &&& (!v.ctx.root ==> v2.ident_provider.st().counter >= v.ident_provider.st().counter)
    // back at the root no temporary is live: the counter starts again at 0
    &&& (v.ctx.root ==> v2.ident_provider.st().counter == 0)
}
// what every visit needs: well-formed telemetry, and no live temporary when the visit starts at the ROOT context - every guard
// that returns to the root resets the counter, so whoever still holds temporaries must visit below the root (C06/C03/C02)
pub open spec fn opv_pre<'a>(v: OperationTransformVisitor<'a>) -> bool {
    v.transform_status.telemetry.wf() && (v.ctx.root ==> v.ident_provider.st().counter == 0)
}

// C15 / C12 vocabulary.  `hooks(e)`: the number of `_ddiast.*` hook call sites in the tree `e` (abstract; its value on the
// instrumented shapes is fixed by the bridge axioms next to the shape predicates in contracts/*.spec).
pub uninterp spec fn hooks(e: Expr) -> nat;
pub uninterp spec fn stmt_hooks(s: Stmt) -> nat;
// an identifier or a literal contains no call at all
pub broadcast axiom fn axiom_leaf_has_no_hooks(e: Expr)
    requires (e is Ident) || (e is Lit),
    ensures #[trigger] hooks(e) == 0;
// accounting invariant of one visit: the propagation count moves exactly with the number of hook call sites, the file
// status becomes Modified only if a hook was added, hooks are never removed, the operation pass never cancels.
pub open spec fn acct_ts(t: TransformStatus, t2: TransformStatus, h0: nat, h2: nat) -> bool {
    &&& h2 >= h0
    &&& (t.status != Status::Cancelled && t.telemetry.kind() != TelKind::NoOp ==> t2.telemetry.count() + h0 == t.telemetry.count() + h2)
    &&& (t.telemetry.kind() == TelKind::NoOp ==> t2.telemetry.count() == 0)
    &&& (t.status == Status::Cancelled ==> t2.telemetry.count() == t.telemetry.count())
    &&& (t.status == Status::NotModified && t2.status == Status::Modified ==> h2 > h0)
    &&& (t.status == Status::NotModified && h2 > h0 && t2.status != Status::Cancelled ==> t2.status == Status::Modified)
    &&& t2.telemetry.kind() == t.telemetry.kind() && (t.telemetry.wf() ==> t2.telemetry.wf())
    &&& status_mono(t.status, t2.status)
}
pub proof fn lemma_acct_ts_trans(a: TransformStatus, b: TransformStatus, c: TransformStatus, h0: nat, h1: nat, h2: nat)
    requires acct_ts(a, b, h0, h1), acct_ts(b, c, h1, h2), b.status != Status::Cancelled || a.status == Status::Cancelled,
    ensures acct_ts(a, c, h0, h2),
{
}
// the operation pass itself never cancels and never touches the message
pub open spec fn acct<'a>(v: OperationTransformVisitor<'a>, v2: OperationTransformVisitor<'a>, h0: nat, h2: nat) -> bool {
    &&& acct_ts(*v.transform_status, *v2.transform_status, h0, h2)
    &&& (v2.transform_status.status == Status::Cancelled <==> v.transform_status.status == Status::Cancelled)
    &&& v2.transform_status.msg == v.transform_status.msg
}
// C04: `c` is a call of a configured method in one of the receiver shapes the statement lists (fixed by unit U5's contracts);
// the chain contains `recv?.m(..)` of a configured method that still has to be lowered (unit U7)
pub uninterp spec fn pending_optchain(e: Expr, csi: CsiMethods) -> bool;
// C04 vocabulary.  `children_done(e)`: every enabled operation strictly below the root of `e` has been given to the
// visitor (abstract: its meaning is fixed by the traversal contracts below and the bridge axioms in contracts/opv.spec).
pub uninterp spec fn children_done(e: Expr) -> bool;
pub uninterp spec fn stmt_children_done(s: Stmt) -> bool;

impl<'a> VisitMutWith<OperationTransformVisitor<'a>> for BinExpr {
    open spec fn vmc_req(self, v: OperationTransformVisitor<'a>) -> bool { opv_pre(v) }
    #[verifier::prophetic]
    open spec fn vmc_ens(self, v: OperationTransformVisitor<'a>, s2: BinExpr, v2: OperationTransformVisitor<'a>) -> bool {
        &&& opv_frame(v, v2)
        &&& acct(v, v2, hooks(Expr::Bin(self)), hooks(Expr::Bin(s2)))
        &&& s2.op == self.op && s2.span == self.span
        &&& children_done(Expr::Bin(s2))
    }
    #[verifier::external_body]
    fn visit_mut_children_with(&mut self, v: &mut OperationTransformVisitor<'a>) { unimplemented!() }
    open spec fn vm_req(self, v: OperationTransformVisitor<'a>) -> bool { opv_pre(v) }
    #[verifier::prophetic]
    open spec fn vm_ens(self, v: OperationTransformVisitor<'a>, s2: BinExpr, v2: OperationTransformVisitor<'a>) -> bool { opv_frame(v, v2) && acct(v, v2, hooks(Expr::Bin(self)), hooks(Expr::Bin(s2))) }
    #[verifier::external_body]
    fn visit_mut_with(&mut self, v: &mut OperationTransformVisitor<'a>) { unimplemented!() }
}

impl<'a> VisitMutWith<OperationTransformVisitor<'a>> for AssignExpr {
    open spec fn vmc_req(self, v: OperationTransformVisitor<'a>) -> bool { opv_pre(v) }
    #[verifier::prophetic]
    open spec fn vmc_ens(self, v: OperationTransformVisitor<'a>, s2: AssignExpr, v2: OperationTransformVisitor<'a>) -> bool {
        &&& opv_frame(v, v2)
        &&& acct(v, v2, hooks(Expr::Assign(self)), hooks(Expr::Assign(s2)))
        &&& s2.op == self.op && s2.span == self.span && (s2.left is Simple <==> self.left is Simple) && ((self.left matches AssignTarget::Simple(SimpleAssignTarget::Ident(_))) ==> s2.left == self.left) && ((s2.left matches AssignTarget::Simple(SimpleAssignTarget::Ident(_))) ==> (self.left matches AssignTarget::Simple(SimpleAssignTarget::Ident(_))))
        &&& children_done(Expr::Assign(s2))
    }
    #[verifier::external_body]
    fn visit_mut_children_with(&mut self, v: &mut OperationTransformVisitor<'a>) { unimplemented!() }
    open spec fn vm_req(self, v: OperationTransformVisitor<'a>) -> bool { opv_pre(v) }
    #[verifier::prophetic]
    open spec fn vm_ens(self, v: OperationTransformVisitor<'a>, s2: AssignExpr, v2: OperationTransformVisitor<'a>) -> bool { opv_frame(v, v2) && acct(v, v2, hooks(Expr::Assign(self)), hooks(Expr::Assign(s2))) }
    #[verifier::external_body]
    fn visit_mut_with(&mut self, v: &mut OperationTransformVisitor<'a>) { unimplemented!() }
}

impl<'a> VisitMutWith<OperationTransformVisitor<'a>> for Tpl {
    open spec fn vmc_req(self, v: OperationTransformVisitor<'a>) -> bool { opv_pre(v) }
    #[verifier::prophetic]
    open spec fn vmc_ens(self, v: OperationTransformVisitor<'a>, s2: Tpl, v2: OperationTransformVisitor<'a>) -> bool {
        &&& opv_frame(v, v2)
        &&& acct(v, v2, hooks(Expr::Tpl(self)), hooks(Expr::Tpl(s2)))
        &&& s2.span == self.span && s2.quasis == self.quasis && s2.exprs@.len() == self.exprs@.len() && (forall|i: int| 0 <= i < self.exprs@.len() ==> ((*(#[trigger] self.exprs@[i]) is Lit) <==> (*s2.exprs@[i] is Lit)))
        &&& children_done(Expr::Tpl(s2))
    }
    #[verifier::external_body]
    fn visit_mut_children_with(&mut self, v: &mut OperationTransformVisitor<'a>) { unimplemented!() }
    open spec fn vm_req(self, v: OperationTransformVisitor<'a>) -> bool { opv_pre(v) }
    #[verifier::prophetic]
    open spec fn vm_ens(self, v: OperationTransformVisitor<'a>, s2: Tpl, v2: OperationTransformVisitor<'a>) -> bool { opv_frame(v, v2) && acct(v, v2, hooks(Expr::Tpl(self)), hooks(Expr::Tpl(s2))) }
    #[verifier::external_body]
    fn visit_mut_with(&mut self, v: &mut OperationTransformVisitor<'a>) { unimplemented!() }
}

impl<'a> VisitMutWith<OperationTransformVisitor<'a>> for CallExpr {
    open spec fn vmc_req(self, v: OperationTransformVisitor<'a>) -> bool { opv_pre(v) }
    #[verifier::prophetic]
    open spec fn vmc_ens(self, v: OperationTransformVisitor<'a>, s2: CallExpr, v2: OperationTransformVisitor<'a>) -> bool {
        &&& opv_frame(v, v2)
        &&& acct(v, v2, hooks(Expr::Call(self)), hooks(Expr::Call(s2)))
        &&& s2.span == self.span && (s2.callee is Expr <==> self.callee is Expr)
        &&& children_done(Expr::Call(s2))
    }
    #[verifier::external_body]
    fn visit_mut_children_with(&mut self, v: &mut OperationTransformVisitor<'a>) { unimplemented!() }
    open spec fn vm_req(self, v: OperationTransformVisitor<'a>) -> bool { opv_pre(v) }
    #[verifier::prophetic]
    open spec fn vm_ens(self, v: OperationTransformVisitor<'a>, s2: CallExpr, v2: OperationTransformVisitor<'a>) -> bool { opv_frame(v, v2) && acct(v, v2, hooks(Expr::Call(self)), hooks(Expr::Call(s2))) }
    #[verifier::external_body]
    fn visit_mut_with(&mut self, v: &mut OperationTransformVisitor<'a>) { unimplemented!() }
}

impl<'a> VisitMutWith<OperationTransformVisitor<'a>> for Expr {
    open spec fn vmc_req(self, v: OperationTransformVisitor<'a>) -> bool { opv_pre(v) }
    #[verifier::prophetic]
    open spec fn vmc_ens(self, v: OperationTransformVisitor<'a>, s2: Expr, v2: OperationTransformVisitor<'a>) -> bool {
        &&& opv_frame(v, v2)
        &&& acct(v, v2, hooks(self), hooks(s2))
        &&& expr_same_kind(self, s2) && ((self is Lit) ==> s2 == self) && ((self is OptChain) ==> (pending_optchain(s2, *v.csi_methods) <==> pending_optchain(self, *v.csi_methods)))
        &&& children_done(s2)
    }
    #[verifier::external_body]
    fn visit_mut_children_with(&mut self, v: &mut OperationTransformVisitor<'a>) { unimplemented!() }
    open spec fn vm_req(self, v: OperationTransformVisitor<'a>) -> bool { opv_pre(v) }
    #[verifier::prophetic]
    open spec fn vm_ens(self, v: OperationTransformVisitor<'a>, s2: Expr, v2: OperationTransformVisitor<'a>) -> bool { opv_frame(v, v2) && acct(v, v2, hooks(self), hooks(s2)) }
    #[verifier::external_body]
    fn visit_mut_with(&mut self, v: &mut OperationTransformVisitor<'a>) { unimplemented!() }
}

impl<'a> VisitMutWith<OperationTransformVisitor<'a>> for Stmt {
    open spec fn vmc_req(self, v: OperationTransformVisitor<'a>) -> bool { opv_pre(v) }
    #[verifier::prophetic]
    open spec fn vmc_ens(self, v: OperationTransformVisitor<'a>, s2: Stmt, v2: OperationTransformVisitor<'a>) -> bool {
        &&& opv_frame(v, v2)
        &&& acct(v, v2, stmt_hooks(self), stmt_hooks(s2))
        &&& true
        &&& stmt_children_done(s2)
    }
    #[verifier::external_body]
    fn visit_mut_children_with(&mut self, v: &mut OperationTransformVisitor<'a>) { unimplemented!() }
    open spec fn vm_req(self, v: OperationTransformVisitor<'a>) -> bool { opv_pre(v) }
    #[verifier::prophetic]
    open spec fn vm_ens(self, v: OperationTransformVisitor<'a>, s2: Stmt, v2: OperationTransformVisitor<'a>) -> bool { opv_frame(v, v2) && acct(v, v2, stmt_hooks(self), stmt_hooks(s2)) }
    #[verifier::external_body]
    fn visit_mut_with(&mut self, v: &mut OperationTransformVisitor<'a>) { unimplemented!() }
}

impl<'a> VisitMutWith<OperationTransformVisitor<'a>> for IfStmt {
    open spec fn vmc_req(self, v: OperationTransformVisitor<'a>) -> bool { opv_pre(v) }
    #[verifier::prophetic]
    open spec fn vmc_ens(self, v: OperationTransformVisitor<'a>, s2: IfStmt, v2: OperationTransformVisitor<'a>) -> bool {
        &&& opv_frame(v, v2)
        &&& acct(v, v2, stmt_hooks(Stmt::If(self)), stmt_hooks(Stmt::If(s2)))
        &&& s2.span == self.span && (s2.alt is Some <==> self.alt is Some)
        &&& stmt_children_done(Stmt::If(s2))
    }
    #[verifier::external_body]
    fn visit_mut_children_with(&mut self, v: &mut OperationTransformVisitor<'a>) { unimplemented!() }
    open spec fn vm_req(self, v: OperationTransformVisitor<'a>) -> bool { opv_pre(v) }
    #[verifier::prophetic]
    open spec fn vm_ens(self, v: OperationTransformVisitor<'a>, s2: IfStmt, v2: OperationTransformVisitor<'a>) -> bool { opv_frame(v, v2) }
    #[verifier::external_body]
    fn visit_mut_with(&mut self, v: &mut OperationTransformVisitor<'a>) { unimplemented!() }
}

// same variant (only the variants the contracts distinguish)
pub open spec fn expr_same_kind(a: Expr, b: Expr) -> bool {
    &&& (a is Lit <==> b is Lit) && (a is Ident <==> b is Ident) && (a is Bin <==> b is Bin) && (a is Assign <==> b is Assign)
    &&& (a is Tpl <==> b is Tpl) && (a is Call <==> b is Call) && (a is OptChain <==> b is OptChain) && (a is Unary <==> b is Unary)
    &&& (a is Arrow <==> b is Arrow) && (a is Paren <==> b is Paren) && (a is Array <==> b is Array) && (a is Member <==> b is Member)
    &&& (a matches Expr::Unary(u) ==> b->Unary_0.op == u.op)
    &&& (a matches Expr::Bin(u) ==> b->Bin_0.op == u.op)
}

// ASSUMED traversal contracts for OperationTransformVisitor (swc_ecma_visit generated code), see traversal.rs.
// What a traversal of children may do to the visitor: it only calls the visitor's overridden methods
// (visit_mut_expr / visit_mut_ident / visit_mut_if_stmt / visit_mut_block_stmt), each of which keeps this frame.
pub open spec fn status_mono(a: Status, b: Status) -> bool {
    (a == Status::Cancelled ==> b == Status::Cancelled) && (a == Status::Modified ==> b != Status::NotModified)
}
pub open spec fn opv_frame<'a>(v: OperationTransformVisitor<'a>, v2: OperationTransformVisitor<'a>) -> bool {
    &&& v2.ctx == v.ctx
    &&& v2.csi_methods == v.csi_methods
    &&& status_mono(v.transform_status.status, v2.transform_status.status)
    &&& v2.transform_status.telemetry.kind() == v.transform_status.telemetry.kind()
    &&& (v.transform_status.telemetry.wf() ==> v2.transform_status.telemetry.wf())
    &&& v2.transform_status.telemetry.count() >= v.transform_status.telemetry.count()
    &&& v2.ident_provider.st().prefix == v.ident_provider.st().prefix
    // below the root of an expression the temporary counter is never reset (C06: no clobbering of live temporaries)
    &&& (!v.ctx.root ==> v2.ident_provider.st().counter >= v.ident_provider.st().counter)
}
impl<'a> VisitMutWith<OperationTransformVisitor<'a>> for AssignExpr {
    open spec fn vmc_req(self, v: OperationTransformVisitor<'a>) -> bool { v.transform_status.telemetry.wf() }
    open spec fn vmc_ens(self, v: OperationTransformVisitor<'a>, s2: AssignExpr, v2: OperationTransformVisitor<'a>) -> bool {
        opv_frame(v, v2) && s2.op == self.op && s2.span == self.span
    }
    #[verifier::external_body]
    fn visit_mut_children_with(&mut self, v: &mut OperationTransformVisitor<'a>) { unimplemented!() }
    open spec fn vm_req(self, v: OperationTransformVisitor<'a>) -> bool { v.transform_status.telemetry.wf() }
    open spec fn vm_ens(self, v: OperationTransformVisitor<'a>, s2: AssignExpr, v2: OperationTransformVisitor<'a>) -> bool { opv_frame(v, v2) }
    #[verifier::external_body]
    fn visit_mut_with(&mut self, v: &mut OperationTransformVisitor<'a>) { unimplemented!() }
}

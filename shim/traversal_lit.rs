// ASSUMED contract of swc_ecma_visit's generated read-only traversals (`node.visit_children_with(v)` / `visit_with(v)`) for the
// literal collector.  `lit_children(n, v, v2)`: v2 is v after the visitor's overridden methods (visit_lit, visit_expr,
// visit_var_declarators, visit_object_lit) have been applied to every child of n, in source order.  Abstract: only the fact
// THAT the children were handed to the visitor is used (C14: which sub-trees are skipped).
pub trait VisitWith<V>: Sized {
    spec fn vc_ens(self, v: V, v2: V) -> bool;
    fn visit_children_with(&self, v: &mut V)
        ensures self.vc_ens(*old(v), *final(v));
    spec fn vw_ens(self, v: V, v2: V) -> bool;
    fn visit_with(&self, v: &mut V)
        ensures self.vw_ens(*old(v), *final(v));
}
pub uninterp spec fn lit_children_expr(n: Expr, v: LiteralVisitor, v2: LiteralVisitor) -> bool;
pub uninterp spec fn lit_children_decl(n: VarDeclarator, v: LiteralVisitor, v2: LiteralVisitor) -> bool;
pub uninterp spec fn lit_children_obj(n: ObjectLit, v: LiteralVisitor, v2: LiteralVisitor) -> bool;
pub uninterp spec fn lit_whole_program(n: Program, v: LiteralVisitor, v2: LiteralVisitor) -> bool;
// the traversal only calls the visitor's methods, each of which keeps the configured length window
pub open spec fn lit_frame(v: LiteralVisitor, v2: LiteralVisitor) -> bool {
    v2.min_literal_length == v.min_literal_length && v2.max_literal_length == v.max_literal_length
}
impl VisitWith<LiteralVisitor> for Expr {
    open spec fn vc_ens(self, v: LiteralVisitor, v2: LiteralVisitor) -> bool { lit_children_expr(self, v, v2) && lit_frame(v, v2) }
    #[verifier::external_body]
    fn visit_children_with(&self, v: &mut LiteralVisitor) { unimplemented!() }
    open spec fn vw_ens(self, v: LiteralVisitor, v2: LiteralVisitor) -> bool { lit_frame(v, v2) }
    #[verifier::external_body]
    fn visit_with(&self, v: &mut LiteralVisitor) { unimplemented!() }
}
impl VisitWith<LiteralVisitor> for VarDeclarator {
    open spec fn vc_ens(self, v: LiteralVisitor, v2: LiteralVisitor) -> bool { lit_children_decl(self, v, v2) && lit_frame(v, v2) }
    #[verifier::external_body]
    fn visit_children_with(&self, v: &mut LiteralVisitor) { unimplemented!() }
    open spec fn vw_ens(self, v: LiteralVisitor, v2: LiteralVisitor) -> bool { lit_frame(v, v2) }
    #[verifier::external_body]
    fn visit_with(&self, v: &mut LiteralVisitor) { unimplemented!() }
}
impl VisitWith<LiteralVisitor> for ObjectLit {
    open spec fn vc_ens(self, v: LiteralVisitor, v2: LiteralVisitor) -> bool { lit_children_obj(self, v, v2) && lit_frame(v, v2) }
    #[verifier::external_body]
    fn visit_children_with(&self, v: &mut LiteralVisitor) { unimplemented!() }
    open spec fn vw_ens(self, v: LiteralVisitor, v2: LiteralVisitor) -> bool { lit_frame(v, v2) }
    #[verifier::external_body]
    fn visit_with(&self, v: &mut LiteralVisitor) { unimplemented!() }
}
impl VisitWith<LiteralVisitor> for Program {
    open spec fn vc_ens(self, v: LiteralVisitor, v2: LiteralVisitor) -> bool { lit_frame(v, v2) }
    #[verifier::external_body]
    fn visit_children_with(&self, v: &mut LiteralVisitor) { unimplemented!() }
    open spec fn vw_ens(self, v: LiteralVisitor, v2: LiteralVisitor) -> bool { lit_whole_program(self, v, v2) && lit_frame(v, v2) }
    #[verifier::external_body]
    fn visit_with(&self, v: &mut LiteralVisitor) { unimplemented!() }
}
// swc helpers used by the collector
impl PropOrSpread {
    #[verifier::external_body]
    pub fn as_prop(&self) -> (r: Option<&Box<Prop>>) ensures r == (match self { PropOrSpread::Prop(p) => Some(p), _ => None }) { unimplemented!() }
}
impl PropName {
    #[verifier::external_body]
    pub fn as_ident(&self) -> (r: Option<&IdentName>) ensures r == (match self { PropName::Ident(i) => Some(i), _ => None }) { unimplemented!() }
}
impl Pat {
    #[verifier::external_body]
    pub fn as_ident(&self) -> (r: Option<&BindingIdent>) ensures r == (match self { Pat::Ident(i) => Some(i), _ => None }) { unimplemented!() }
}
impl std::hash::Hash for Span {
    #[verifier::external_body]
    fn hash<H: std::hash::Hasher>(&self, state: &mut H) { unimplemented!() }
}

// Assumed specifications of std items that vstd does not specify (each one is an assumption, listed in evidence).

// String's Hash/Eq are deterministic and agree (needed for HashMap<String, _> / HashSet<String> models).
pub broadcast axiom fn axiom_string_obeys_key_model()
    ensures #[trigger] vstd::std_specs::hash::obeys_key_model::<String>();

// decimal rendering of an unsigned integer (what `format!("{}", n)` prints); only injectivity is used
pub uninterp spec fn decimal(n: nat) -> Seq<char>;
pub broadcast axiom fn axiom_decimal_injective(a: nat, b: nat)
    ensures #[trigger] decimal(a) == #[trigger] decimal(b) ==> a == b;

// Option::map_or / map_or_else (definitions)
pub assume_specification<T, U, F: FnOnce(T) -> U>[ Option::<T>::map_or ](o: Option<T>, d: U, f: F) -> (r: U)
    requires o is Some ==> f.requires((o->0,)),
    ensures o is None ==> r == d, o is Some ==> f.ensures((o->0,), r);
pub assume_specification<T, U, D: FnOnce() -> U, F: FnOnce(T) -> U>[ Option::<T>::map_or_else ](o: Option<T>, d: D, f: F) -> (r: U)
    requires o is None ==> d.requires(()), o is Some ==> f.requires((o->0,)),
    ensures o is None ==> d.ensures((), r), o is Some ==> f.ensures((o->0,), r);

// <[T]>::contains / to_vec for element types whose PartialEq / Clone are the derived structural ones
pub assume_specification<T: PartialEq>[ <[T]>::contains ](s: &[T], x: &T) -> (r: bool)
    ensures r == s@.contains(*x);
pub assume_specification<T: Clone>[ <[T]>::to_vec ](s: &[T]) -> (r: Vec<T>)
    ensures r@ == s@;

// string slices are values: equal text means equal (used to move between `&str` equality and views)
pub broadcast axiom fn axiom_str_ext(a: &str, b: &str)
    ensures #[trigger] a@ == #[trigger] b@ ==> a == b;

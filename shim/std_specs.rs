// Assumed specifications of std items that vstd does not specify (each one is an assumption, listed in evidence).

// String's Hash/Eq are deterministic and agree (needed for HashMap<String, _> / HashSet<String> models).
pub broadcast axiom fn axiom_string_obeys_key_model()
    ensures #[trigger] vstd::std_specs::hash::obeys_key_model::<String>();

// decimal rendering of an unsigned integer (what `format!("{}", n)` prints); only injectivity is used
pub uninterp spec fn decimal(n: nat) -> Seq<char>;
pub broadcast axiom fn axiom_decimal_injective(a: nat, b: nat)
    ensures #[trigger] decimal(a) == #[trigger] decimal(b) ==> a == b;

// Option::map_or / map_or_else (definitions)
pub assume_specification<T, U, F: FnOnce(T) -> U>[ Option::<T>::map_or ](o: Option<T>, d: U, f: F) -> (r: U)
    requires o is Some ==> f.requires((o->0,)),
    ensures o is None ==> r == d, o is Some ==> f.ensures((o->0,), r);
pub assume_specification<T, U, D: FnOnce() -> U, F: FnOnce(T) -> U>[ Option::<T>::map_or_else ](o: Option<T>, d: D, f: F) -> (r: U)
    requires o is None ==> d.requires(()), o is Some ==> f.requires((o->0,)),
    ensures o is None ==> d.ensures((), r), o is Some ==> f.ensures((o->0,), r);

// <[T]>::contains / to_vec for element types whose PartialEq / Clone are the derived structural ones
pub assume_specification<T: PartialEq>[ <[T]>::contains ](s: &[T], x: &T) -> (r: bool)
    ensures r == s@.contains(*x);
pub assume_specification<T: Clone>[ <[T]>::to_vec ](s: &[T]) -> (r: Vec<T>)
    ensures r@ == s@;

// string slices are values: equal text means equal (used to move between `&str` equality and views)
pub broadcast axiom fn axiom_str_ext(a: &str, b: &str)
    ensures #[trigger] a@ == #[trigger] b@ ==> a == b;

// String::len is the UTF-8 byte length
pub assume_specification[ String::len ](s: &String) -> (r: usize)
    ensures r == str_byte_len(s@);

// HashMap::get_mut (vstd specifies get/insert/contains_key only): the entry borrowed is the one whose key borrows as `k`;
// writing through the returned reference updates exactly that entry
pub assume_specification<'a, K, V, S, A, Q>[ HashMap::<K, V, S, A>::get_mut::<Q> ](m: &'a mut HashMap<K, V, S, A>, k: &Q) -> (r: Option<&'a mut V>)
    where K: std::borrow::Borrow<Q> + Eq + std::hash::Hash, Q: std::hash::Hash + Eq + ?Sized, S: std::hash::BuildHasher, A: std::alloc::Allocator
    ensures
        vstd::std_specs::hash::obeys_key_model::<K>() && vstd::std_specs::hash::builds_valid_hashers::<S>() ==> match r {
            Some(v) => exists|key: K| #![trigger old(m)@.dom().contains(key)] old(m)@.dom().contains(key)
                && vstd::std_specs::hash::contains_borrowed_key(Map::<K, ()>::empty().insert(key, ()), k)
                && old(m)@[key] == *v && final(m)@ == old(m)@.insert(key, *final(v)),
            None => !vstd::std_specs::hash::contains_borrowed_key(old(m)@, k) && final(m)@ == old(m)@,
        };

// ASCII case mapping of strings (only compared against constants / used as an opaque function)
pub uninterp spec fn str_upper(s: Seq<char>) -> Seq<char>;
pub uninterp spec fn str_lower(s: Seq<char>) -> Seq<char>;
pub assume_specification[ str::to_uppercase ](s: &str) -> (r: String)
    ensures r@ == str_upper(s@);
pub assume_specification[ str::to_lowercase ](s: &str) -> (r: String)
    ensures r@ == str_lower(s@);

// HashMap<String, V> looked up with a `&str` key: the entry whose key has the same text
pub broadcast axiom fn axiom_contains_str_key<V>(m: Map<String, V>, k: &str)
    ensures #[trigger] vstd::std_specs::hash::contains_borrowed_key::<String, V, str>(m, k)
        <==> exists|key: String| #![trigger m.dom().contains(key)] m.dom().contains(key) && key@ == k@;
pub broadcast axiom fn axiom_maps_str_key_to_value<V>(m: Map<String, V>, k: &str, v: V)
    ensures #[trigger] vstd::std_specs::hash::maps_borrowed_key_to_value::<String, V, str>(m, k, v)
        <==> exists|key: String| #![trigger m.dom().contains(key)] m.dom().contains(key) && key@ == k@ && m[key] == v;
pub assume_specification<'a, T: Copy>[ Option::<&'a T>::copied ](o: Option<&'a T>) -> (r: Option<T>)
    ensures match o { Some(v) => r == Some(*v), None => r is None };
pub assume_specification<'a>[ <String as From<&'a str>>::from ](s: &str) -> (r: String)
    ensures r@ == s@;
#[verifier::external_type_specification]
#[verifier::external_body]
pub struct ExFromUtf8Error(std::string::FromUtf8Error);
// UTF-8 decoding of a byte sequence (None: not valid UTF-8)
pub uninterp spec fn utf8(b: Seq<u8>) -> Option<Seq<char>>;
pub assume_specification[ String::from_utf8 ](v: Vec<u8>) -> (r: Result<String, std::string::FromUtf8Error>)
    ensures match r { Ok(s) => utf8(v@) == Some(s@), Err(_) => utf8(v@) is None };

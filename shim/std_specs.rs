// Assumed specifications of std items that vstd does not specify (each one is an assumption, listed in evidence).

// String's Hash/Eq are deterministic and agree (needed for HashMap<String, _> / HashSet<String> models).
pub broadcast axiom fn axiom_string_obeys_key_model()
    ensures #[trigger] vstd::std_specs::hash::obeys_key_model::<String>();

// Traversal of a Program by BlockTransformVisitor (which overrides only visit_mut_block_stmt / visit_mut_program):
// top-level items are visited in place; the visitor's overrides act on nested BlockStmts only.  Hence the item list
// keeps its length, an item that is a directive (string-literal expression statement: contains no block) is returned
// unchanged, and a non-directive item stays a non-directive.  The config reference is not changed.
impl<'a> VisitMutWith<BlockTransformVisitor<'a>> for Program {
    open spec fn vmc_req(self, v: BlockTransformVisitor<'a>) -> bool { true }
    #[verifier::prophetic]
    open spec fn vmc_ens(self, v: BlockTransformVisitor<'a>, s2: Program, v2: BlockTransformVisitor<'a>) -> bool {
        &&& (self is Script <==> s2 is Script)
        &&& program_items(s2).len() == program_items(self).len()
        &&& forall|i: int| 0 <= i < program_items(self).len() ==>
              (item_is_directive(#[trigger] program_items(self)[i]) ==> program_items(s2)[i] == program_items(self)[i])
              && (!item_is_directive(program_items(self)[i]) ==> !item_is_directive(program_items(s2)[i]))
        &&& v2.config == v.config
        &&& (v.transform_status.status == Status::Cancelled ==> v2.transform_status.status == Status::Cancelled)
        // the reference to the status object is kept (what it points to may change)
        &&& *final(v2.transform_status) == *final(v.transform_status)
    }
    #[verifier::external_body]
    fn visit_mut_children_with(&mut self, v: &mut BlockTransformVisitor<'a>) { unimplemented!() }
    open spec fn vm_req(self, v: BlockTransformVisitor<'a>) -> bool { true }
    #[verifier::prophetic]
    open spec fn vm_ens(self, v: BlockTransformVisitor<'a>, s2: Program, v2: BlockTransformVisitor<'a>) -> bool { true }
    #[verifier::external_body]
    fn visit_mut_with(&mut self, v: &mut BlockTransformVisitor<'a>) { unimplemented!() }
}


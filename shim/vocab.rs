// Shared spec vocabulary (DESIGN.md section 4).  Pure spec definitions and PROVED lemmas only - no assumptions.

// ---- directive prologues (C07) ----
// A directive is an expression statement consisting solely of a string literal (ECMA-262 11.2.1 Directive Prologues).
pub open spec fn is_directive(s: Stmt) -> bool {
    s matches Stmt::Expr(e) && (*e.expr matches Expr::Lit(l) && l is Str)
}
pub open spec fn item_is_directive(m: ModuleItem) -> bool {
    m matches ModuleItem::Stmt(s) && is_directive(s)
}
// k is the length of the directive prologue of s: the longest prefix consisting of directives only
pub open spec fn is_prologue_len(s: Seq<Stmt>, k: int) -> bool {
    &&& 0 <= k <= s.len()
    &&& forall|i: int| 0 <= i < k ==> is_directive(#[trigger] s[i])
    &&& (k < s.len() ==> !is_directive(s[k]))
}
pub open spec fn is_item_prologue_len(s: Seq<ModuleItem>, k: int) -> bool {
    &&& 0 <= k <= s.len()
    &&& forall|i: int| 0 <= i < k ==> item_is_directive(#[trigger] s[i])
    &&& (k < s.len() ==> !item_is_directive(s[k]))
}
// the prologue length is unique
pub proof fn lemma_prologue_len_unique(s: Seq<Stmt>, a: int, b: int)
    requires is_prologue_len(s, a), is_prologue_len(s, b),
    ensures a == b,
{
    if a < b { assert(is_directive(s[a])); } else if b < a { assert(is_directive(s[b])); }
}
pub proof fn lemma_item_prologue_len_unique(s: Seq<ModuleItem>, a: int, b: int)
    requires is_item_prologue_len(s, a), is_item_prologue_len(s, b),
    ensures a == b,
{
    if a < b { assert(item_is_directive(s[a])); } else if b < a { assert(item_is_directive(s[b])); }
}
// inserting non-directive material right after the prologue keeps the prologue (statement of C07)
pub proof fn lemma_prologue_preserved_by_insert_after(s: Seq<Stmt>, k: int, ins: Seq<Stmt>)
    requires is_prologue_len(s, k), ins.len() > 0 ==> !is_directive(ins[0]),
    ensures
        is_prologue_len(s.subrange(0, k) + ins + s.subrange(k, s.len() as int), k),
        (s.subrange(0, k) + ins + s.subrange(k, s.len() as int)).subrange(0, k) =~= s.subrange(0, k),
{
    let t = s.subrange(0, k) + ins + s.subrange(k, s.len() as int);
    assert forall|i: int| 0 <= i < k implies is_directive(#[trigger] t[i]) by { assert(t[i] == s[i]); }
    if k < t.len() {
        if ins.len() > 0 { assert(t[k] == ins[0]); } else { assert(t[k] == s[k]); }
    }
}
// program body as a sequence of module items (scripts are wrapped) so that one statement covers both kinds
pub open spec fn program_items(p: Program) -> Seq<ModuleItem> {
    match p {
        Program::Script(s) => s.body@.map_values(|st: Stmt| ModuleItem::Stmt(st)),
        Program::Module(m) => m.body@,
    }
}
pub open spec fn wrap_stmts(s: Seq<Stmt>) -> Seq<ModuleItem> {
    s.map_values(|st: Stmt| ModuleItem::Stmt(st))
}

// ---- reserved names (C06) ----
// "__datadog_" + prefix + "_"
pub open spec fn reserved_prefix(p: Seq<char>) -> Seq<char> {
    "__datadog"@ + "_"@ + p + "_"@
}

// ---- lemmas relating statement-level and item-level prologues (proved) ----
pub proof fn lemma_wrap_prologue(s: Seq<Stmt>, k: int)
    ensures is_item_prologue_len(wrap_stmts(s), k) <==> is_prologue_len(s, k),
{
    let w = wrap_stmts(s);
    assert(w.len() == s.len());
    if is_prologue_len(s, k) {
        assert forall|i: int| 0 <= i < k implies item_is_directive(#[trigger] w[i]) by { assert(w[i] == ModuleItem::Stmt(s[i])); }
        if k < s.len() { assert(w[k] == ModuleItem::Stmt(s[k])); }
    }
    if is_item_prologue_len(w, k) {
        assert forall|i: int| 0 <= i < k implies is_directive(#[trigger] s[i]) by { assert(w[i] == ModuleItem::Stmt(s[i])); }
        if k < s.len() { assert(w[k] == ModuleItem::Stmt(s[k])); }
    }
}
pub proof fn lemma_wrap_concat3(a: Seq<Stmt>, b: Seq<Stmt>, c: Seq<Stmt>)
    ensures wrap_stmts(a + b + c) =~= wrap_stmts(a) + wrap_stmts(b) + wrap_stmts(c),
{
}
pub proof fn lemma_wrap_subrange(s: Seq<Stmt>, i: int, j: int)
    requires 0 <= i <= j <= s.len(),
    ensures wrap_stmts(s.subrange(i, j)) =~= wrap_stmts(s).subrange(i, j),
{
}
pub proof fn lemma_item_prologue_preserved_by_insert_after(s: Seq<ModuleItem>, k: int, ins: Seq<ModuleItem>)
    requires is_item_prologue_len(s, k), ins.len() > 0 ==> !item_is_directive(ins[0]),
    ensures
        is_item_prologue_len(s.subrange(0, k) + ins + s.subrange(k, s.len() as int), k),
        (s.subrange(0, k) + ins + s.subrange(k, s.len() as int)).subrange(0, k) =~= s.subrange(0, k),
{
    let t = s.subrange(0, k) + ins + s.subrange(k, s.len() as int);
    assert forall|i: int| 0 <= i < k implies item_is_directive(#[trigger] t[i]) by { assert(t[i] == s[i]); }
    if k < t.len() {
        if ins.len() > 0 { assert(t[k] == ins[0]); } else { assert(t[k] == s[k]); }
    }
}
// a traversal that keeps directive items unchanged and non-directives non-directive keeps every prologue
pub proof fn lemma_item_prologue_stable(a: Seq<ModuleItem>, b: Seq<ModuleItem>, k: int)
    requires
        a.len() == b.len(),
        forall|i: int| 0 <= i < a.len() ==> (item_is_directive(#[trigger] a[i]) ==> b[i] == a[i]) && (!item_is_directive(a[i]) ==> !item_is_directive(b[i])),
        is_item_prologue_len(a, k),
    ensures
        is_item_prologue_len(b, k),
        b.subrange(0, k) =~= a.subrange(0, k),
{
    assert forall|i: int| 0 <= i < k implies item_is_directive(#[trigger] b[i]) by { assert(item_is_directive(a[i])); }
}

// a pass that returns directives unchanged and keeps non-directives non-directive keeps every statement prologue
pub proof fn lemma_prologue_stable(a: Seq<Stmt>, b: Seq<Stmt>, k: int)
    requires
        a.len() == b.len(),
        forall|i: int| 0 <= i < a.len() ==> (is_directive(#[trigger] a[i]) ==> b[i] == a[i]) && (!is_directive(a[i]) ==> !is_directive(b[i])),
        is_prologue_len(a, k),
    ensures
        is_prologue_len(b, k),
        b.subrange(0, k) =~= a.subrange(0, k),
{
    assert forall|i: int| 0 <= i < k implies is_directive(#[trigger] b[i]) by { assert(is_directive(a[i])); }
}

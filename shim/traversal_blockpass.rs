// ---- block pass (assumed traversal contracts, see traversal.rs) ----
// hook call sites in a block / identifiers occurring in a block outside nested blocks (abstract)
pub uninterp spec fn block_hooks(b: BlockStmt) -> nat;
// a user-written identifier that collides with the reserved temporary names (C06): real span + reserved prefix
pub open spec fn is_reserved_user_ident(id: Ident, prefix: Seq<char>) -> bool {
    id.span != DUMMY_SP && reserved_prefix(prefix).is_prefix_of(id.sym@)
}
// The operation pass over the statements of one block: statements are visited in place (nested blocks are skipped by the
// visitor's no-op override), so the list keeps its length, directives stay untouched, non-directives stay non-directives;
// every identifier of the block has been handed to visit_mut_ident (registered in `variables`); accounting as for expressions.
impl<'a> VisitMutWith<OperationTransformVisitor<'a>> for BlockStmt {
    open spec fn vmc_req(self, v: OperationTransformVisitor<'a>) -> bool { v.transform_status.telemetry.wf() && v.ctx.root && v.ident_provider.st().counter == 0 }
    #[verifier::prophetic]
    open spec fn vmc_ens(self, v: OperationTransformVisitor<'a>, s2: BlockStmt, v2: OperationTransformVisitor<'a>) -> bool {
        &&& opv_frame(v, v2)
        &&& acct(v, v2, block_hooks(self), block_hooks(s2))
        &&& s2.span == self.span && s2.ctxt == self.ctxt && s2.stmts@.len() == self.stmts@.len()
        &&& forall|i: int| 0 <= i < self.stmts@.len() ==>
              (is_directive(#[trigger] self.stmts@[i]) ==> s2.stmts@[i] == self.stmts@[i])
              && (!is_directive(self.stmts@[i]) ==> !is_directive(s2.stmts@[i]))
        // the temporaries to declare are exactly those registered by the transforms of this pass (none before it started)
        &&& v2.ident_provider.st().variables.finite()
    }
    #[verifier::external_body]
    fn visit_mut_children_with(&mut self, v: &mut OperationTransformVisitor<'a>) { unimplemented!() }
    open spec fn vm_req(self, v: OperationTransformVisitor<'a>) -> bool { false }
    #[verifier::prophetic]
    open spec fn vm_ens(self, v: OperationTransformVisitor<'a>, s2: BlockStmt, v2: OperationTransformVisitor<'a>) -> bool { true }
    #[verifier::external_body]
    fn visit_mut_with(&mut self, v: &mut OperationTransformVisitor<'a>) { unimplemented!() }
}
// The block visitor descending into the nested blocks of a block: each nested block gets its own pass
// (visit_mut_block_stmt); the statement list of THIS block keeps its length, its injected `let` (a declaration without
// initialisers contains no block) and its directives are untouched; accounting over the block's hooks.
impl<'a> VisitMutWith<BlockTransformVisitor<'a>> for BlockStmt {
    open spec fn vmc_req(self, v: BlockTransformVisitor<'a>) -> bool { v.transform_status.telemetry.wf() }
    #[verifier::prophetic]
    open spec fn vmc_ens(self, v: BlockTransformVisitor<'a>, s2: BlockStmt, v2: BlockTransformVisitor<'a>) -> bool {
        &&& v2.config == v.config
        &&& acct_ts(*v.transform_status, *v2.transform_status, block_hooks(self), block_hooks(s2))
        // a nested pass that refuses leaves its reason; the reference to the status is kept
        &&& (v.transform_status.status != Status::Cancelled && v2.transform_status.status == Status::Cancelled ==> v2.transform_status.msg is Some)
        &&& *final(v2.transform_status) == *final(v.transform_status)
        &&& s2.span == self.span && s2.ctxt == self.ctxt && s2.stmts@.len() == self.stmts@.len()
        &&& forall|i: int| 0 <= i < self.stmts@.len() ==>
              ((is_directive(#[trigger] self.stmts@[i]) || is_bare_let(self.stmts@[i])) ==> s2.stmts@[i] == self.stmts@[i])
              && (!is_directive(self.stmts@[i]) ==> !is_directive(s2.stmts@[i]))
    }
    #[verifier::external_body]
    fn visit_mut_children_with(&mut self, v: &mut BlockTransformVisitor<'a>) { unimplemented!() }
    open spec fn vm_req(self, v: BlockTransformVisitor<'a>) -> bool { false }
    #[verifier::prophetic]
    open spec fn vm_ens(self, v: BlockTransformVisitor<'a>, s2: BlockStmt, v2: BlockTransformVisitor<'a>) -> bool { true }
    #[verifier::external_body]
    fn visit_mut_with(&mut self, v: &mut BlockTransformVisitor<'a>) { unimplemented!() }
}
// `let a, b;` : a variable declaration none of whose declarators has an initialiser (nothing to visit inside)
pub open spec fn is_bare_let(s: Stmt) -> bool {
    s matches Stmt::Decl(Decl::Var(vd)) && (forall|i: int| 0 <= i < vd.decls@.len() ==> ((#[trigger] vd.decls@[i]).init is None && (vd.decls@[i].name is Ident)))
}
// BRIDGE AXIOM: declaring temporaries (`let t0, t1;` without initialisers) adds no hook call site to the block
pub axiom fn axiom_let_adds_no_hooks(b: BlockStmt, b2: BlockStmt, k: int, d: Stmt)
    requires 0 <= k <= b.stmts@.len(), b2.stmts@ == b.stmts@.insert(k, d), d is Decl, b2.span == b.span, b2.ctxt == b.ctxt,
    ensures block_hooks(b2) == block_hooks(b);

// Display text of the string types that reach `format!("..{}..")` in the pipeline glue, the per-arity concatenation functions
// rule N22 rewrites `format!` to, Cow<str> conversions, base64.  All ASSUMED (std / base64 crate behaviour).

pub uninterp spec fn cow_text(c: Cow<'_, str>) -> Seq<char>;
pub assume_specification<'a>[ <Cow<'a, str> as From<&'a str>>::from ](s: &'a str) -> (r: Cow<'a, str>)
    ensures cow_text(r) == s@;
pub assume_specification<'a>[ <Cow<'a, str> as From<String>>::from ](s: String) -> (r: Cow<'a, str>)
    ensures cow_text(r) == s@;

pub trait VerifDisplay {
    spec fn disp(&self) -> Seq<char>;
}
impl VerifDisplay for str {
    open spec fn disp(&self) -> Seq<char> { self@ }
}
impl VerifDisplay for String {
    open spec fn disp(&self) -> Seq<char> { self@ }
}
// `{}` of an unsigned integer prints its decimal rendering (`decimal` is uninterpreted; only injectivity is assumed)
impl VerifDisplay for usize {
    open spec fn disp(&self) -> Seq<char> { decimal(*self as nat) }
}
impl<'a> VerifDisplay for Cow<'a, str> {
    open spec fn disp(&self) -> Seq<char> { cow_text(*self) }
}
impl<T: VerifDisplay + ?Sized> VerifDisplay for &T {
    open spec fn disp(&self) -> Seq<char> { (**self).disp() }
}

#[verifier::external_body]
pub fn verif_format1<A: VerifDisplay + ?Sized>(p: [&str; 2], a: &A) -> (r: String)
    ensures r@ == p[0]@ + a.disp() + p[1]@,
{ unimplemented!() }
#[verifier::external_body]
pub fn verif_format2<A: VerifDisplay + ?Sized, B: VerifDisplay + ?Sized>(p: [&str; 3], a: &A, b: &B) -> (r: String)
    ensures r@ == p[0]@ + a.disp() + p[1]@ + b.disp() + p[2]@,
{ unimplemented!() }
#[verifier::external_body]
pub fn verif_format3<A: VerifDisplay + ?Sized, B: VerifDisplay + ?Sized, C: VerifDisplay + ?Sized>(p: [&str; 4], a: &A, b: &B, c: &C) -> (r: String)
    ensures r@ == p[0]@ + a.disp() + p[1]@ + b.disp() + p[2]@ + c.disp() + p[3]@,
{ unimplemented!() }

// base64::engine::general_purpose::STANDARD.encode(text)
pub struct GeneralPurpose {}
pub const STANDARD: GeneralPurpose = GeneralPurpose {};
pub uninterp spec fn b64(s: Seq<char>) -> Seq<char>;
impl GeneralPurpose {
    #[verifier::external_body]
    pub fn encode(&self, input: String) -> (r: String)
        ensures r@ == b64(input@),
    { unimplemented!() }
}

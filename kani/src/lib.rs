// Kani harness crate.  `extracted.rs` is written on every run by tools/kani_run.py: it holds the text of the repo
// functions named there, cut out of /repo's working tree by item path (no edits).
#![allow(dead_code)]
mod extracted;

#[cfg(kani)]
mod kani_h {
    use super::extracted::*;

    // fastrand::usize(range): any value inside the range (the generator itself is not under test)
    fn any_in_range<R: core::ops::RangeBounds<usize>>(range: R) -> usize {
        use core::ops::Bound::*;
        let v: usize = kani::any();
        match range.start_bound() {
            Included(a) => kani::assume(*a <= v),
            Excluded(a) => kani::assume(*a < v),
            Unbounded => {}
        }
        match range.end_bound() {
            Included(b) => kani::assume(v <= *b),
            Excluded(b) => kani::assume(v < *b),
            Unbounded => {}
        }
        v
    }

    fn check(n: usize) {
        let s = rnd_string(n);
        assert!(s.len() == n);
        let b = s.as_bytes();
        let mut i = 0;
        while i < n {
            assert!(b'a' <= b[i] && b[i] <= b'z');
            i += 1;
        }
    }

    /// BOUNDED (the only length the repository uses, 6; every choice of the generator): memory safety of the unsafe
    /// get_unchecked, result length, alphabet.
    #[kani::proof]
    #[kani::unwind(28)]
    #[kani::stub(fastrand::usize, any_in_range)]
    fn rnd_string_len6() {
        check(6);
    }

    /// BOUNDED (lengths 0..=2)
    #[kani::proof]
    #[kani::unwind(28)]
    #[kani::stub(fastrand::usize, any_in_range)]
    fn rnd_string_len0_2() {
        check(0);
        check(1);
        check(2);
    }

    /// vacuity guard: this harness must FAIL (the alphabet has more than one letter)
    #[kani::proof]
    #[kani::unwind(30)]
    #[kani::stub(fastrand::usize, any_in_range)]
    fn rnd_string_canary() {
        let s = rnd_string(1);
        assert!(s.as_bytes()[0] == b'a');
    }
}

//! Replay harness: runs concrete inputs through the REAL rewrite_js / print_js of the repository
//! (modules are #[path]-included from the working tree through the symlink .cache/repo_src).
//! It decides nothing; it turns a failed obligation into a concrete failing run where one is known.
#![allow(dead_code, unused_imports, clippy::all)]

#[path = "../../.cache/repo_src/rewriter.rs"]
mod rewriter;
#[path = "../../.cache/repo_src/telemetry.rs"]
mod telemetry;
#[path = "../../.cache/repo_src/transform/mod.rs"]
mod transform;
#[path = "../../.cache/repo_src/util.rs"]
mod util;
#[path = "../../.cache/repo_src/tracer_logger.rs"]
mod tracer_logger;
#[path = "../../.cache/repo_src/lib_wasm.rs"]
mod lib_wasm;
#[path = "../../.cache/repo_src/visitor/mod.rs"]
mod visitor;

use serde::Deserialize;
use std::io::Read;
use std::path::{Path, PathBuf};
use telemetry::{Telemetry, TelemetryVerbosity};
use visitor::csi_methods::{CsiMethod, CsiMethods};

#[derive(Deserialize, Default)]
struct CsiJson {
    src: String,
    dst: Option<String>,
    operator: Option<bool>,
    allowed_without_callee: Option<bool>,
}

#[derive(Deserialize, Default)]
struct ConfigJson {
    chain_source_map: Option<bool>,
    print_comments: Option<bool>,
    local_var_prefix: Option<String>,
    csi_methods: Option<Vec<CsiJson>>,
    verbosity: Option<String>,
    literals: Option<bool>,
    prologue: Option<bool>,
}

#[derive(Deserialize)]
struct GeneratedFile {
    #[serde(default)]
    head: String,
    repeat: String,
    count: usize,
    #[serde(default)]
    tail: String,
}

#[derive(Deserialize)]
struct Witness {
    #[serde(default)]
    config: ConfigJson,
    #[serde(default)]
    file_name: String,
    source: String,
    /// files visible to the in-memory file reader: path -> content
    #[serde(default)]
    files: std::collections::HashMap<String, String>,
    /// real file system mode: `files` (relative paths) are written under a fresh temporary directory, `symlinks` (link -> target,
    /// both relative to it) are created, `cwd_files` are written into a second temporary directory which becomes the working
    /// directory; `file_name` is taken relative to the first directory and the repository's DefaultFileReader is used
    #[serde(default)]
    real_fs: bool,
    /// with real_fs: `file_name` stays relative (to the working directory made of `cwd_files`)
    #[serde(default)]
    relative_file_name: bool,
    #[serde(default)]
    symlinks: std::collections::HashMap<String, String>,
    #[serde(default)]
    cwd_files: std::collections::HashMap<String, String>,
    /// the original (pre-transpilation) map, as JSON text, for the composition check (also reference it from `source`)
    #[serde(default)]
    original_map: Option<String>,
    /// large files described instead of spelled out: path -> {"head": .., "repeat": .., "count": n, "tail": ..}; expanded into `files`
    #[serde(default)]
    generated_files: std::collections::HashMap<String, GeneratedFile>,
    /// the bad behaviour: REPRODUCED iff all conditions hold
    violated_when: Vec<serde_json::Value>,
}

struct MemReader {
    files: std::collections::HashMap<String, String>,
}
impl util::FileReader<std::io::Cursor<Vec<u8>>> for MemReader {
    fn read(&self, path: &Path) -> std::io::Result<std::io::Cursor<Vec<u8>>> {
        match self.files.get(path.to_str().unwrap_or("")) {
            Some(c) => Ok(std::io::Cursor::new(c.clone().into_bytes())),
            None => Err(std::io::Error::new(std::io::ErrorKind::NotFound, "no such file")),
        }
    }
}

fn default_methods() -> Vec<CsiMethod> {
    let m = |s: &str, d: Option<&str>, op: bool| CsiMethod::new(s.to_string(), d.map(|x| x.to_string()), op, false);
    vec![
        m("plusOperator", None, true),
        m("tplOperator", None, true),
        m("substring", Some("stringSubstring"), false),
        m("trim", Some("stringTrim"), false),
        m("trimStart", Some("stringTrim"), false),
        m("trimEnd", Some("stringTrim"), false),
        m("concat", Some("stringConcat"), false),
        m("slice", None, false),
        m("replace", None, false),
    ]
}

/// decode the inline `//# sourceMappingURL=data:application/json;base64,...` trailer of the printed content
fn trailer_map(content: &str) -> Option<swc::sourcemap::SourceMap> {
    use base64::Engine as _;
    let marker = "//# sourceMappingURL=data:application/json;base64,";
    let pos = content.rfind(marker)?;
    let b64 = content[pos + marker.len()..].trim();
    let bytes = base64::engine::general_purpose::STANDARD.decode(b64).ok()?;
    swc::sourcemap::SourceMap::from_reader(&bytes[..]).ok()
}

/// (line, col) 0-based of the nth occurrence of `needle` in `text`
fn pos_of(text: &str, needle: &str, nth: usize) -> Option<(u32, u32)> {
    let mut start = 0;
    let mut found = None;
    for _ in 0..=nth {
        let i = text[start..].find(needle)? + start;
        found = Some(i);
        start = i + needle.len().max(1);
    }
    let i = found?;
    let before = &text[..i];
    let line = before.matches('\n').count() as u32;
    let col = before.rsplit('\n').next().unwrap_or("").encode_utf16().count() as u32;
    Some((line, col))
}

/// run replay/exec_oracle.js (node) on the original source and the rewritten code; returns its one-line verdict
fn exec_oracle(mode: &str, original: &str, rewritten: &str, driver: &str) -> String {
    // a not-modified result carries no code: the package hands the caller's source back
    let rewritten = if rewritten.trim().is_empty() { original } else { rewritten };
    let dir = std::env::temp_dir().join(format!("verif_exec_{}", std::process::id()));
    let _ = std::fs::create_dir_all(&dir);
    let of = dir.join("original.js");
    let rf = dir.join("rewritten.js");
    std::fs::write(&of, original).expect("write original");
    std::fs::write(&rf, rewritten).expect("write rewritten");
    let script = std::path::Path::new(env!("CARGO_MANIFEST_DIR")).join("exec_oracle.js");
    let out = std::process::Command::new("node").arg(script).arg(mode).arg(&of).arg(&rf).arg(driver).output();
    let _ = std::fs::remove_dir_all(&dir);
    match out {
        Ok(o) => String::from_utf8_lossy(&o.stdout).trim().to_string() + String::from_utf8_lossy(&o.stderr).lines().next().unwrap_or(""),
        Err(e) => format!("ORACLE-UNAVAILABLE {e}"),
    }
}

/// C09 stated on one output: (a) every mapping with a source points inside the input text; (b) every mapping whose generated
/// position starts an identifier copied from the input (not an injected name) points at the same identifier in the input.
/// Returns (first mapping outside the input, first copied identifier mapped elsewhere).
fn map_position_checks(content: &str, input: &str) -> (Option<String>, Option<String>, Option<String>) {
    let map = match trailer_map(content) { Some(m) => m, None => return (Some("no map".to_string()), None, None) };
    // per generated line: original lines of copied identifiers, and (generated col, original line) of injected tokens
    let mut copied_lines: std::collections::HashMap<u32, (u32, u32)> = std::collections::HashMap::new();
    let mut hook_tokens: Vec<(u32, u32, u32)> = Vec::new();
    // swc (like Node) drops a leading byte order mark before it computes positions
    let input = input.strip_prefix('\u{feff}').unwrap_or(input);
    let in_lines: Vec<Vec<u16>> = input.split('\n').map(|l| l.encode_utf16().collect()).collect();
    let out_lines: Vec<Vec<u16>> = content.split('\n').map(|l| l.encode_utf16().collect()).collect();
    let is_start = |c: u16| (c as u8 as char).is_ascii_alphabetic() && c < 128 || c == b'_' as u16 || c == b'$' as u16;
    let is_part = |c: u16| c < 128 && ((c as u8 as char).is_ascii_alphanumeric() || c == b'_' as u16 || c == b'$' as u16);
    let ident_at = |lines: &Vec<Vec<u16>>, l: u32, c: u32| -> Option<String> {
        let line = lines.get(l as usize)?;
        let c = c as usize;
        if c >= line.len() || !is_start(line[c]) || (c > 0 && is_part(line[c - 1])) { return None; }
        let mut e = c;
        while e < line.len() && is_part(line[e]) { e += 1; }
        Some(String::from_utf16_lossy(&line[c..e]))
    };
    let mut outside = None;
    let mut mismapped = None;
    for t in map.tokens() {
        if !t.has_source() { continue; }
        let (sl, sc) = (t.get_src_line(), t.get_src_col());
        let inside = (sl as usize) < in_lines.len() && (sc as usize) <= in_lines[sl as usize].len();
        if !inside && outside.is_none() {
            outside = Some(format!("generated {}:{} -> {}:{} (input has {} lines)", t.get_dst_line(), t.get_dst_col(), sl, sc, in_lines.len()));
        }
        // every token that demonstrably is a COPY of input text (the same word, number or opening of a string stands at the
        // mapped original position) widens the original line range of its generated line
        {
            let gl = t.get_dst_line() as usize;
            let gc = t.get_dst_col() as usize;
            let word = |l: &Vec<u16>, c: usize| -> Vec<u16> {
                let mut e = c;
                if c < l.len() && (l[c] == b'\'' as u16 || l[c] == b'"' as u16 || l[c] == b'`' as u16) { e = (c + 6).min(l.len()); }
                else { while e < l.len() && is_part(l[e]) { e += 1; } }
                l[c.min(l.len())..e].to_vec()
            };
            if let (Some(ol), Some(il)) = (out_lines.get(gl), in_lines.get(sl as usize)) {
                let gw = word(ol, gc);
                let gtext = String::from_utf16_lossy(&gw);
                let injected_name = gtext.starts_with("_ddiast") || gtext.starts_with("__datadog_");
                if !gw.is_empty() && !injected_name && gw == word(il, sc as usize) {
                    let e = copied_lines.entry(t.get_dst_line()).or_insert((sl, sl));
                    e.0 = e.0.min(sl);
                    e.1 = e.1.max(sl);
                }
            }
        }
        if let Some(id) = ident_at(&out_lines, t.get_dst_line(), t.get_dst_col()) {
            let injected = id.starts_with("__datadog_") || id == "_ddiast" || id == "let" || id == "undefined" || id == "null" || id == "call" || id == "apply";
            // a member name right after an injected temporary (`__datadog_test_1.call`) or after `_ddiast.` is injected too
            let line = &out_lines[t.get_dst_line() as usize];
            let c = t.get_dst_col() as usize;
            let after_dot = c > 0 && line[c - 1] == b'.' as u16;
            if injected || after_dot {
                if id == "_ddiast" { injected_push(&mut hook_tokens, t.get_dst_line(), t.get_dst_col(), sl); }
                continue;
            }
            if inside {
                let e = copied_lines.entry(t.get_dst_line()).or_insert((sl, sl));
                e.0 = e.0.min(sl);
                e.1 = e.1.max(sl);
                // a private name `#x` is one token starting at `#`
                let sc2 = if in_lines[sl as usize].get(sc as usize) == Some(&(b'#' as u16)) { sc + 1 } else { sc };
                let orig = ident_at(&in_lines, sl, sc2);
                // an identifier spelled with an escape sequence in the input is printed cooked: not comparable as text
                let escaped = in_lines[sl as usize].get(sc2 as usize) == Some(&(b'\\' as u16))
                    || { let l = &in_lines[sl as usize]; let mut e = sc2 as usize; while e < l.len() && (is_part(l[e]) || l[e] == b'\\' as u16 || l[e] == b'{' as u16 || l[e] == b'}' as u16) { e += 1; } l[(sc2 as usize).min(l.len())..e].contains(&(b'\\' as u16)) };
                if escaped { continue; }
                if orig.as_deref() != Some(id.as_str()) && mismapped.is_none() {
                    mismapped = Some(format!("generated {}:{} `{}` -> {}:{} {:?}", t.get_dst_line(), t.get_dst_col(), id, sl, sc, orig));
                }
            }
        }
    }
    // (c) a hook call maps into the line span of the statement it belongs to: on its generated line, between the smallest and
    // the largest original line of the identifiers copied onto that line
    let mut stray = None;
    for (gl, gc, sl) in hook_tokens {
        // (a statement may be printed over several generated lines - kept comments force line breaks -, so the copies of the two
        //  generated lines before and after count as well)
        let mut range: Option<(u32, u32)> = None;
        for g in gl.saturating_sub(2)..=gl + 2 {
            if let Some((lo, hi)) = copied_lines.get(&g) {
                range = Some(match range { Some((a, b)) => (a.min(*lo), b.max(*hi)), None => (*lo, *hi) });
            }
        }
        if let (Some((lo, hi)), true) = (range.as_ref(), copied_lines.contains_key(&gl)) {
            if (sl < *lo || sl > *hi) && stray.is_none() {
                stray = Some(format!("hook call at generated {}:{} maps to original line {} but the copied identifiers of that line come from lines {}..{}", gl, gc, sl, lo, hi));
            }
        }
    }
    (outside, mismapped, stray)
}
fn injected_push(v: &mut Vec<(u32, u32, u32)>, gl: u32, gc: u32, sl: u32) { v.push((gl, gc, sl)); }

/// names dereferenced on the hook namespace, in order: `_ddiast . NAME` with any white space and comments in between (with
/// comments kept, swc prints the comments of the original expression between `_ddiast` and `.NAME`)
fn hook_names(code: &str) -> Vec<String> {
    let b = code.as_bytes();
    let mut out = Vec::new();
    let mut from = 0;
    while let Some(i) = code[from..].find("_ddiast") {
        let start = from + i;
        let mut k = start + 7;
        from = k;
        if start > 0 && (b[start - 1].is_ascii_alphanumeric() || b[start - 1] == b'_' || b[start - 1] == b'$' || b[start - 1] == b'.') { continue; }
        loop {
            while k < b.len() && (b[k] as char).is_whitespace() { k += 1; }
            if code[k..].starts_with("/*") { match code[k..].find("*/") { Some(e) => { k += e + 2; continue; } None => break } }
            if code[k..].starts_with("//") { match code[k..].find('\n') { Some(e) => { k += e + 1; continue; } None => break } }
            break;
        }
        if k < b.len() && b[k] == b'.' {
            k += 1;
            while k < b.len() && (b[k] as char).is_whitespace() { k += 1; }
            let name: String = code[k..].chars().take_while(|c| c.is_ascii_alphanumeric() || *c == '_' || *c == '$').collect();
            if !name.is_empty() { out.push(name); }
        }
    }
    out
}

fn count_hooks(code: &str) -> usize {
    hook_names(code).len()
}

fn main() {
    let args: Vec<String> = std::env::args().collect();
    let file = args.iter().position(|a| a == "--file").map(|i| args[i + 1].clone()).expect("--file F");
    let text = std::fs::read_to_string(&file).expect("read witness");
    let w: Witness = serde_json::from_str(&text).expect("witness json");

    // --generic PROP [--variant NAME]: ignore the witness's own conditions and configuration; run its PROGRAM under the named
    // configuration variant and evaluate the fixed list of relational oracles of PROP (tools: bin/check generic probes)
    let generic_prop: Option<String> = args.iter().position(|a| a == "--generic").map(|i| args[i + 1].clone());
    let variant: String = args.iter().position(|a| a == "--variant").map(|i| args[i + 1].clone()).unwrap_or_else(|| "default".to_string());
    let mut w = w;
    for (path, g) in &w.generated_files {
        w.files.insert(path.clone(), format!("{}{}{}", g.head, g.repeat.repeat(g.count), g.tail));
    }
    if generic_prop.is_some() {
        let mk = |src: &str, dst: Option<&str>, op: bool, bare: bool| CsiJson { src: src.to_string(), dst: dst.map(|x| x.to_string()), operator: Some(op), allowed_without_callee: Some(bare) };
        let methods_only = || vec![mk("substring", Some("stringSubstring"), false, false), mk("trim", Some("stringTrim"), false, false), mk("concat", Some("stringConcat"), false, false), mk("slice", None, false, false), mk("replace", None, false, false)];
        w.config = ConfigJson::default();
        w.real_fs = false;
        match variant.as_str() {
            "default" => {}
            "no_tpl" => { let mut v = methods_only(); v.push(mk("plusOperator", None, true, false)); w.config.csi_methods = Some(v); }
            "methods_only" => { w.config.csi_methods = Some(methods_only()); }
            "plus_only" => { w.config.csi_methods = Some(vec![mk("plusOperator", None, true, false)]); }
            "tpl_only" => { w.config.csi_methods = Some(vec![mk("tplOperator", None, true, false)]); }
            "renamed" => { w.config.csi_methods = Some(vec![mk("plusOperator", Some("plus_op"), true, false), mk("tplOperator", Some("tpl$"), true, false), mk("substring", Some("sub"), false, false), mk("trim", Some("_trim"), false, false), mk("concat", Some("cc"), false, true)]); }
            "empty" => { w.config.csi_methods = Some(vec![]); }
            "stress" => { w.config.chain_source_map = Some(true); w.config.print_comments = Some(true); w.config.prologue = Some(true); }
            "comments" => { w.config.print_comments = Some(true); }
            "prologue" => { w.config.prologue = Some(true); }
            "off_prologue" => { w.config.prologue = Some(true); w.config.verbosity = Some("OFF".to_string()); }
            "information" => { w.config.verbosity = Some("INFORMATION".to_string()); }
            "off" => { w.config.verbosity = Some("OFF".to_string()); }
            other => panic!("unknown variant {other}"),
        }
    }
    let w = w;
    let methods: Vec<CsiMethod> = match &w.config.csi_methods {
        Some(v) => v
            .iter()
            .map(|c| CsiMethod::new(c.src.clone(), c.dst.clone(), c.operator.unwrap_or(false), c.allowed_without_callee.unwrap_or(false)))
            .collect(),
        None => default_methods(),
    };
    let csi = CsiMethods::new(&methods);
    // --only-panics: ignore the witness's own conditions; REPRODUCED iff the call panics.  --stress-config: additionally switch
    // on chaining, comments, literals and the file prologue (the configuration the shipped bindings build).
    let only_panics = args.iter().any(|a| a == "--only-panics");
    let stress = args.iter().any(|a| a == "--stress-config");
    let with_prologue = w.config.prologue.unwrap_or(false) || stress;
    let prologue = if with_prologue {
        // an earlier call with ANOTHER configuration must not influence this one (the bindings build one prologue per Rewriter)
        let other = CsiMethods::new(&vec![CsiMethod::new("verifWarmUp".to_string(), None, false, false)]);
        let _ = rewriter::generate_prefix_stmts(&other);
        rewriter::generate_prefix_stmts(&csi)
    } else { Vec::new() };
    let config = rewriter::Config {
        chain_source_map: w.config.chain_source_map.unwrap_or(false) || stress,
        print_comments: w.config.print_comments.unwrap_or(false) || stress,
        local_var_prefix: w.config.local_var_prefix.clone().unwrap_or_else(|| "test".to_string()),
        csi_methods: csi,
        verbosity: TelemetryVerbosity::parse(w.config.verbosity.clone().or(Some("DEBUG".to_string()))),
        literals: w.config.literals.unwrap_or(true),
        file_prefix_code: prologue,
    };
    let reader = MemReader { files: w.files.clone() };
    let src = w.source.clone();
    let mut fname = w.file_name.clone();
    let mut real_dirs: Vec<std::path::PathBuf> = Vec::new();
    if w.real_fs {
        let base = std::env::temp_dir().join(format!("verif_fs_{}", std::process::id()));
        let root = base.join("root");
        let cwd = base.join("cwd");
        std::fs::create_dir_all(&root).expect("mkdir");
        std::fs::create_dir_all(&cwd).expect("mkdir");
        for (p, c) in &w.files {
            let f = root.join(p);
            if let Some(d) = f.parent() { let _ = std::fs::create_dir_all(d); }
            std::fs::write(&f, c).expect("write file");
        }
        for (l, t) in &w.symlinks {
            let lf = root.join(l);
            if let Some(d) = lf.parent() { let _ = std::fs::create_dir_all(d); }
            #[cfg(unix)]
            std::os::unix::fs::symlink(root.join(t), &lf).expect("symlink");
        }
        for (p, c) in &w.cwd_files {
            let f = cwd.join(p);
            if let Some(d) = f.parent() { let _ = std::fs::create_dir_all(d); }
            std::fs::write(&f, c).expect("write cwd file");
        }
        std::env::set_current_dir(&cwd).expect("chdir");
        if !w.relative_file_name { fname = root.join(&w.file_name).to_string_lossy().to_string(); }
        real_dirs.push(base);
    }

    // history independence: a call for ANOTHER file (with its own sourceMappingURL comment, comments and literals) is made
    // first on this thread; nothing of it may leak into the call under test (the bindings keep one Rewriter per process)
    {
        let decoy_map = "{\"version\":3,\"sources\":[\"verif-decoy.ts\"],\"names\":[],\"mappings\":\"AAAA;AACA\"}";
        use base64::Engine as _;
        let decoy = format!("/* decoy */ function verifDecoy(p, q) {{ return p + q + 'decoy literal value'; }}\n//# sourceMappingURL=data:application/json;base64,{}", base64::engine::general_purpose::STANDARD.encode(decoy_map));
        let _ = std::panic::catch_unwind(std::panic::AssertUnwindSafe(|| {
            let _ = rewriter::rewrite_js(decoy, "verif-decoy.js", &config, &MemReader { files: Default::default() })
                .map(|o| rewriter::print_js(&o.code, &o.source_map, &o.original_source_map, &config).into_owned());
        }));
    }
    // the same file went through the rewriter before, when every external file it names had OTHER content (a map that has been
    // regenerated since): nothing of that earlier call may survive into the call under test
    if !w.real_fs && !w.files.is_empty() {
        let stale: std::collections::HashMap<String, String> = w.files.keys().enumerate()
            .map(|(i, k)| (k.clone(), format!("{{\"version\":3,\"sources\":[\"verif-stale-{i}.ts\"],\"names\":[],\"mappings\":\"AAAA;AACA;AACA\"}}"))).collect();
        let (s0, f0) = (w.source.clone(), w.file_name.clone());
        let prev0 = std::panic::take_hook();
        std::panic::set_hook(Box::new(|_| {}));
        let _ = std::panic::catch_unwind(std::panic::AssertUnwindSafe(|| {
            let _ = rewriter::rewrite_js(s0, &f0, &config, &MemReader { files: stale })
                .map(|o| rewriter::print_js(&o.code, &o.source_map, &o.original_source_map, &config).into_owned());
        }));
        std::panic::set_hook(prev0);
    }
    let prev = std::panic::take_hook();
    std::panic::set_hook(Box::new(|_| {}));
    let result = std::panic::catch_unwind(std::panic::AssertUnwindSafe(|| {
        let rewritten = if w.real_fs {
            rewriter::rewrite_js(src, &fname, &config, &util::DefaultFileReader {})
        } else {
            rewriter::rewrite_js(src, &fname, &config, &reader)
        };
        rewritten.map(|o| {
            let content = rewriter::print_js(&o.code, &o.source_map, &o.original_source_map, &config).into_owned();
            (o, content)
        })
    }));
    std::panic::set_hook(prev);

    let mut composition_mismatch: Option<String> = None;
    let mut composition_glb_mismatch: Option<String> = None;
    let mut panicked = false;
    let mut errored: Option<String> = None;
    let mut code = String::new();
    let mut content = String::new();
    let mut metric: i64 = -1;
    let mut dbg_sum: i64 = -1;
    let mut dbg_text = String::new();
    let mut status = String::new();
    let mut literals: Vec<(String, usize, usize, Option<String>)> = vec![];
    let mut literals_present = false;
    match result {
        Err(_) => panicked = true,
        Ok(Err(e)) => errored = Some(format!("{e}")),
        Ok(Ok((o, c))) => {
            code = o.code.clone();
            content = c;
            // C10 stated directly: chained(gen) == original(rewrite(gen)) for every token of the plain rewrite map
            if let Some(om) = &w.original_map {
                if let Ok(orig) = swc::sourcemap::SourceMap::from_reader(om.as_bytes()) {
                    let mk = |chain: bool| rewriter::Config {
                        chain_source_map: chain,
                        print_comments: config.print_comments,
                        local_var_prefix: config.local_var_prefix.clone(),
                        csi_methods: config.csi_methods.clone(),
                        verbosity: TelemetryVerbosity::Off,
                        literals: false,
                        file_prefix_code: Vec::new(),
                    };
                    let plain = trailer_map(&rewriter::print_js(&o.code, &o.source_map, &o.original_source_map, &mk(false)));
                    let chained = trailer_map(&rewriter::print_js(&o.code, &o.source_map, &o.original_source_map, &mk(true)));
                    if let (Some(p), Some(c)) = (plain, chained) {
                        for t in p.tokens() {
                            let want = orig.lookup_token(t.get_src_line(), t.get_src_col());
                            let got = c.lookup_token(t.get_dst_line(), t.get_dst_col()).filter(|g| g.get_dst_line() == t.get_dst_line() && g.get_dst_col() == t.get_dst_col());
                            // a token without a source is "unmapped", like no token at all (target_of in contracts/chain.spec)
                            let same = match (&want, &got) {
                                (Some(a), Some(b)) if a.has_source() => a.get_src_line() == b.get_src_line() && a.get_src_col() == b.get_src_col() && a.get_source() == b.get_source() && a.get_name() == b.get_name(),
                                (Some(_), Some(b)) => !b.has_source(),
                                (Some(a), None) => !a.has_source(),
                                (None, Some(b)) => !b.has_source(),
                                (None, None) => true,
                            };
                            // the same question asked the way a consumer asks it: plain lookup_token (greatest lower bound), no exact-token filter
                            let got_glb = c.lookup_token(t.get_dst_line(), t.get_dst_col());
                            let same_glb = match (&want, &got_glb) {
                                (Some(a), Some(b)) if a.has_source() => a.get_src_line() == b.get_src_line() && a.get_src_col() == b.get_src_col() && a.get_source() == b.get_source() && a.get_name() == b.get_name(),
                                (Some(_), Some(b)) => !b.has_source(),
                                (Some(a), None) => !a.has_source(),
                                (None, Some(b)) => !b.has_source(),
                                (None, None) => true,
                            };
                            // ... and one column further (inside the token): a chained segment must not behave as a range mapping
                            let inside_ok = {
                                let t2 = p.lookup_token(t.get_dst_line(), t.get_dst_col() + 1);
                                match t2 {
                                    Some(t2) if t2.get_dst_line() == t.get_dst_line() && t2.get_dst_col() == t.get_dst_col() => {
                                        let want2 = orig.lookup_token(t2.get_src_line(), t2.get_src_col());
                                        let got2 = c.lookup_token(t.get_dst_line(), t.get_dst_col() + 1);
                                        match (&want2, &got2) {
                                            (Some(a), Some(b)) if a.has_source() => a.get_src_line() == b.get_src_line() && a.get_src_col() == b.get_src_col() && a.get_source() == b.get_source(),
                                            (Some(_), Some(b)) => !b.has_source(),
                                            (Some(a), None) => !a.has_source(),
                                            (None, Some(b)) => !b.has_source(),
                                            (None, None) => true,
                                        }
                                    }
                                    _ => true,
                                }
                            };
                            let same_glb = same_glb && inside_ok;
                            if !same_glb && composition_glb_mismatch.is_none() {
                                composition_glb_mismatch = Some(format!("generated {}:{} want {:?} got {:?}", t.get_dst_line(), t.get_dst_col(),
                                    want.map(|a| (a.get_source().map(|x| x.to_string()), a.get_src_line(), a.get_src_col())),
                                    got_glb.map(|a| (a.get_source().map(|x| x.to_string()), a.get_src_line(), a.get_src_col()))));
                            }
                            if !same && composition_mismatch.is_none() {
                                composition_mismatch = Some(format!("generated {}:{} want {:?} got {:?}", t.get_dst_line(), t.get_dst_col(),
                                    want.map(|a| (a.get_source().map(|x| x.to_string()), a.get_src_line(), a.get_src_col(), a.get_name().map(|x| x.to_string()))),
                                    got.map(|a| (a.get_source().map(|x| x.to_string()), a.get_src_line(), a.get_src_col(), a.get_name().map(|x| x.to_string())))));
                            }
                        }
                    } else {
                        composition_mismatch = Some("a map did not decode".to_string());
                    }
                }
            }
            if let Some(ts) = &o.transform_status {
                metric = ts.telemetry.get_instrumented_propagation() as i64;
                status = format!("{}", ts.status).to_lowercase();
                if let Some(d) = ts.telemetry.get_propagation_debug() {
                    dbg_sum = d.values().map(|v| *v as i64).sum();
                    let mut items: Vec<_> = d.iter().map(|(k, v)| format!("{k}:{v}")).collect();
                    items.sort();
                    dbg_text = items.join(",");
                }
            }
            if let Some(l) = &o.literals_result {
                literals_present = true;
                for li in &l.literals {
                    for loc in &li.locations {
                        literals.push((li.value.clone(), loc.line, loc.column, loc.ident.clone()));
                    }
                }
            }
        }
    }
    // C14, last sentence: the literal report of the instrumented run equals the report of a run with nothing enabled
    let literals_uninstrumented: Option<Vec<(String, usize, usize, Option<String>)>> = {
        let cfg0 = rewriter::Config {
            chain_source_map: false,
            print_comments: config.print_comments,
            local_var_prefix: config.local_var_prefix.clone(),
            csi_methods: CsiMethods::new(&Vec::new()),
            verbosity: TelemetryVerbosity::Off,
            literals: config.literals,
            file_prefix_code: Vec::new(),
        };
        let r0 = std::panic::catch_unwind(std::panic::AssertUnwindSafe(|| rewriter::rewrite_js(w.source.clone(), &w.file_name, &cfg0, &MemReader { files: w.files.clone() })));
        match r0 {
            Ok(Ok(o)) => o.literals_result.map(|l| {
                let mut v = vec![];
                for li in &l.literals { for loc in &li.locations { v.push((li.value.clone(), loc.line, loc.column, loc.ident.clone())); } }
                v.sort();
                v
            }),
            _ => None,
        }
    };
    let hooks = count_hooks(&code) as i64;
    // wasm-side shaping through the cfg(dd_iast_verif) accessors: metrics of a fresh status for this file name, and defaults
    let m = lib_wasm::verif_hooks::metrics(Some(transform::transform_status::TransformStatus::not_modified(&config)), &w.file_name);
    let (m_file, m_status) = m.map(|m| (m.file, m.status)).unwrap_or_default();
    let fb = lib_wasm::verif_hooks::fallback_config();
    let df = lib_wasm::verif_hooks::config_from(None, None, None, None, None, None);
    let defaults = format!("fallback: chain={} comments={} literals={} verbosity={:?} prefix_len={} lower={} methods={} | omitted: chain={} comments={} literals={} verbosity={:?} prefix_len={} lower={} methods={}",
        fb.chain_source_map, fb.print_comments, fb.literals, fb.verbosity, fb.local_var_prefix.len(), fb.local_var_prefix.chars().all(|c| c.is_ascii_lowercase()), fb.csi_methods.methods.len(),
        df.chain_source_map, df.print_comments, df.literals, df.verbosity, df.local_var_prefix.len(), df.local_var_prefix.chars().all(|c| c.is_ascii_lowercase()), df.csi_methods.methods.len());
    println!("--- metrics.file={m_file:?} metrics.status={m_status:?}");
    println!("--- {defaults}");
    println!("--- status={status} panicked={panicked} error={errored:?} hooks={hooks} metric={metric} debug={{{dbg_text}}}");
    println!("--- code:\n{code}");
    for l in &literals {
        println!("--- literal {:?} {}:{} ident={:?}", l.0, l.1, l.2, l.3);
    }

    let eval_conds = |conds: &Vec<serde_json::Value>| -> bool {
    let mut all = true;
    for cond in conds {
        let obj = cond.as_object().expect("condition object");
        for (k, v) in obj {
            let holds = match k.as_str() {
                // the rewritten program, run with pass-through hooks, behaves differently from the input program on this call
                "exec_differs" => {
                    let verdict = exec_oracle("exec", &w.source, &code, v.as_str().unwrap());
                    println!("--- exec oracle: {verdict}");
                    !panicked && errored.is_none() && verdict.starts_with("EXEC-DIFFERS")
                }
                // some hook call received a first argument that is not the operation applied to its other arguments
                // the file prologue must not replace a hook object that is already installed, and must define pass-throughs when
                // none is installed (needs config.prologue = true)
                "prologue_misbehaves" => {
                    let verdict = exec_oracle("prologue", &w.source, &code, v.as_str().unwrap());
                    println!("--- exec oracle: {verdict}");
                    !panicked && errored.is_none() && verdict.starts_with("PROLOGUE-WRONG")
                }
                "hook_args_wrong" => {
                    let verdict = exec_oracle("hooks", &w.source, &code, v.as_str().unwrap());
                    println!("--- exec oracle: {verdict}");
                    !panicked && errored.is_none() && verdict.starts_with("HOOK-ARGS-WRONG")
                }
                "map_points_outside_input" => {
                    let (outside, _, _) = map_position_checks(&content, &w.source);
                    println!("--- map positions outside the input: {:?}", outside);
                    outside.is_some() == v.as_bool().unwrap()
                }
                // every occurrence of the listed identifiers in the generated code has a mapping exactly at its position, and that
                // mapping points at an occurrence of the same identifier in the input
                "identifiers_not_exactly_mapped" => {
                    let names: Vec<String> = v.as_array().unwrap().iter().map(|x| x.as_str().unwrap().to_string()).collect();
                    let mut bad = None;
                    if let Some(map) = trailer_map(&content) {
                        let in_lines: Vec<Vec<u16>> = w.source.split('\n').map(|l| l.encode_utf16().collect()).collect();
                        let is_part = |c: u16| c < 128 && ((c as u8 as char).is_ascii_alphanumeric() || c == b'_' as u16 || c == b'$' as u16);
                        let body_end = content.rfind("//# sourceMappingURL=").unwrap_or(content.len());
                        for (li, line) in content[..body_end].split('\n').enumerate() {
                            let u: Vec<u16> = line.encode_utf16().collect();
                            for name in &names {
                                let n: Vec<u16> = name.encode_utf16().collect();
                                let mut c = 0;
                                while c + n.len() <= u.len() {
                                    if u[c..c + n.len()] == n[..] && (c == 0 || !is_part(u[c - 1])) && (c + n.len() == u.len() || !is_part(u[c + n.len()])) && !(c > 0 && u[c - 1] == b'.' as u16) {
                                        let ok = match map.lookup_token(li as u32, c as u32) {
                                            Some(t) => t.get_dst_line() == li as u32 && t.get_dst_col() == c as u32 && t.has_source() && {
                                                let (sl, sc) = (t.get_src_line() as usize, t.get_src_col() as usize);
                                                in_lines.get(sl).map(|l| sc + n.len() <= l.len() && l[sc..sc + n.len()] == n[..]).unwrap_or(false)
                                            },
                                            None => false,
                                        };
                                        if !ok && bad.is_none() { bad = Some(format!("`{}` at generated {}:{}", name, li, c)); }
                                        c += n.len();
                                    } else { c += 1; }
                                }
                            }
                        }
                    } else { bad = Some("no map".to_string()); }
                    println!("--- copied identifier without an exact mapping: {:?}", bad);
                    bad.is_some()
                }
                "hook_call_mapped_outside_statement" => {
                    let (_, _, stray) = map_position_checks(&content, &w.source);
                    println!("--- hook call mapped outside its statement: {:?}", stray);
                    stray.is_some() == v.as_bool().unwrap()
                }
                "copied_identifier_mismapped" => {
                    let (_, mis, _) = map_position_checks(&content, &w.source);
                    println!("--- copied identifier mapped elsewhere: {:?}", mis);
                    mis.is_some() == v.as_bool().unwrap()
                }
                // every reported occurrence sits on an opening quote of the input, followed by the literal's text
                // closed world of hook names: every `_ddiast.NAME` in the output is a configured replacement name
                // C16 probe (not a registered check): repeating the same call in this process gives a different content
                "repeat_differs" => {
                    let n = v.as_u64().unwrap_or(5);
                    let mut diff = None;
                    for i in 0..n {
                        let r = std::panic::catch_unwind(std::panic::AssertUnwindSafe(|| {
                            rewriter::rewrite_js(w.source.clone(), &w.file_name, &config, &MemReader { files: w.files.clone() })
                                .map(|o| rewriter::print_js(&o.code, &o.source_map, &o.original_source_map, &config).into_owned())
                        }));
                        let c2 = match r { Ok(Ok(c)) => c, Ok(Err(e)) => format!("ERR {e}"), Err(_) => "PANIC".to_string() };
                        if c2 != content && diff.is_none() { diff = Some(format!("run {} differs: {} vs {} bytes", i + 2, c2.len(), content.len())); }
                    }
                    println!("--- repeated call: {:?}", diff);
                    diff.is_some()
                }
                // decided by the driver (tools/replaylib.py): the call did not return within the time limit; a run that gets
                // here has returned
                "hangs" => false,
                // every hook name the output dereferences has a pass-through in the file prologue (`NAME: noop`)
                "hook_missing_in_prologue" => {
                    // any property definition of that name in the output counts (`name: ..`, `name : ..`, `'name': ..`, `["name"] = ..`)
                    let bad = hook_names(&code).into_iter().find(|name| ![format!("{name}:"), format!("{name} :"), format!("'{name}'"), format!("\"{name}\"")].iter().any(|p| code.contains(p.as_str())));
                    println!("--- hook used without a pass-through in the prologue: {:?}", bad);
                    bad.is_some() == v.as_bool().unwrap()
                }
                // every configured replacement name has a pass-through in the file prologue, whether this file uses it or not (the
                // first rewritten file that is loaded creates the hook object for all the others)
                "configured_hook_missing_in_prologue" => {
                    let bad = methods.iter().map(|m| m.dst.clone()).find(|name| ![format!("{name}:"), format!("{name} :"), format!("'{name}'"), format!("\"{name}\"")].iter().any(|p| code.contains(p.as_str())));
                    println!("--- configured hook without a pass-through in the prologue: {:?}", bad);
                    bad.is_some() == v.as_bool().unwrap()
                }
                "unconfigured_hook_referenced" => {
                    let allowed: Vec<String> = methods.iter().map(|m| m.dst.clone()).collect();
                    let bad = hook_names(&code).into_iter().find(|n| !allowed.contains(n));
                    println!("--- unconfigured hook name referenced: {:?}", bad);
                    bad.is_some() == v.as_bool().unwrap()
                }
                "literal_not_at_reported_position" => {
                    // columns are counted in UTF-16 code units (what JavaScript tooling uses); an astral character is two units,
                    // represented here by two placeholder chars so that indices are unit indices
                    let lines: Vec<Vec<char>> = w.source.split('\n').map(|l| l.chars().flat_map(|c| if c.len_utf16() == 2 { vec!['\u{1}', '\u{1}'] } else { vec![c] }).collect()).collect();
                    let mut bad = None;
                    for (val, line, col, _) in &literals {
                        let plain = !val.chars().any(|c| c == '\\' || c == '\'' || c == '"' || c == '\n' || c == '\r' || c == '`' || c == '\t');
                        let ok = *line >= 1 && *col >= 1 && lines.get(line - 1).map(|l| {
                            let q = l.get(col - 1).copied();
                            let quote_ok = matches!(q, Some('\'') | Some('"') | Some('`'));
                            let text_ok = !plain || { let rest: String = l.iter().skip(*col).collect();
                                // (an escape sequence in the raw text - `\\-`, `\\x41` - makes raw text and value differ: position only)
                                let raw_has_escape = rest.split(q.unwrap_or('"')).next().map(|r| r.contains('\\')).unwrap_or(false);
                                raw_has_escape || val.chars().any(|c| c.len_utf16() == 2) || rest.starts_with(val.as_str()) || !rest.contains(q.unwrap_or('"')) };
                            quote_ok && text_ok
                        }).unwrap_or(false);
                        if !ok && bad.is_none() { bad = Some(format!("{:?} reported at {}:{}", val, line, col)); }
                    }
                    println!("--- literal not at its reported position: {:?}", bad);
                    (literals_present && bad.is_some()) == v.as_bool().unwrap()
                }
                "literals_changed_by_instrumentation" => {
                    let mut got = literals.clone();
                    got.sort();
                    let differs = literals_present && literals_uninstrumented.as_ref().map(|u| *u != got).unwrap_or(false);
                    if differs { println!("--- literal report with instrumentation {:?} without {:?}", got, literals_uninstrumented); }
                    differs == v.as_bool().unwrap()
                }
                "panics" => panicked == v.as_bool().unwrap(),
                "errors" => errored.is_some() == v.as_bool().unwrap(),
                "hooks_ne_metric" => (hooks != metric) == v.as_bool().unwrap(),
                "debug_sum_ne_metric" => (dbg_sum != metric) == v.as_bool().unwrap(),
                "hooks_lt" => hooks < v.as_i64().unwrap(),
                "hooks_ne" => hooks != v.as_i64().unwrap(),
                "hooks_eq" => hooks == v.as_i64().unwrap(),
                "metric_ne" => metric != v.as_i64().unwrap(),
                "status_is" => status == v.as_str().unwrap(),
                "status_is_not" => status != v.as_str().unwrap(),
                // the configuration asks for the file prologue
                "prologue_expected" => with_prologue == v.as_bool().unwrap(),
                // `/*` and `*/` do not pair up in the printed content (a comment was cut in half)
                "content_unbalanced_block_comment" => {
                    let body_end = content.rfind("//# sourceMappingURL=").unwrap_or(content.len());
                    (content[..body_end].matches("/*").count() != content[..body_end].matches("*/").count()) == v.as_bool().unwrap()
                }
                "code_is_empty" => code.trim().is_empty() == v.as_bool().unwrap(),
                "code_contains" => code.contains(v.as_str().unwrap()),
                "code_not_contains" => !code.contains(v.as_str().unwrap()),
                "content_contains" => content.contains(v.as_str().unwrap()),
                "content_not_contains" => !content.contains(v.as_str().unwrap()),
                "debug_is_not" => dbg_text != v.as_str().unwrap(),
                "literal_missing" => literals_present && !literals.iter().any(|l| l.0 == v.as_str().unwrap()),
                "literal_present" => literals.iter().any(|l| l.0 == v.as_str().unwrap()),
                "literal_locations_ne" => {
                    let a = v.as_array().unwrap();
                    literals.iter().filter(|l| l.0 == a[0].as_str().unwrap()).count() as i64 != a[1].as_i64().unwrap()
                }
                // [value, ident-or-null]: the value is reported but no occurrence carries that variable / property name
                "literal_ident_ne" => {
                    let a = v.as_array().unwrap();
                    let val = a[0].as_str().unwrap();
                    let want: Option<String> = a[1].as_str().map(|x| x.to_string());
                    literals.iter().any(|l| l.0 == val) && !literals.iter().any(|l| l.0 == val && l.3 == want)
                }
                // the report is present although collection is disabled / absent although enabled
                "literals_report_present" => literals_present == v.as_bool().unwrap(),
                "literal_at_not" => {
                    let a = v.as_array().unwrap();
                    let (val, line, col) = (a[0].as_str().unwrap(), a[1].as_u64().unwrap() as usize, a[2].as_u64().unwrap() as usize);
                    literals.iter().any(|l| l.0 == val) && !literals.iter().any(|l| l.0 == val && l.1 == line && l.2 == col)
                }
                "metrics_file_ne" => m_file != v.as_str().unwrap(),
                "metrics_status_ne" => m_status != v.as_str().unwrap(),
                "defaults_ne" => defaults != v.as_str().unwrap(),
                "composition_mismatch" => {
                    println!("--- composition: {:?}", composition_mismatch);
                    composition_mismatch.is_some() == v.as_bool().unwrap()
                }
                "composition_glb_mismatch" => {
                    println!("--- composition (glb): {:?}", composition_glb_mismatch);
                    composition_glb_mismatch.is_some() == v.as_bool().unwrap()
                }
                "trailer_count_ne" => content.matches("sourceMappingURL=").count() as i64 != v.as_i64().unwrap(),
                "map_invalid" => (trailer_map(&content).is_none()) == v.as_bool().unwrap(),
                "map_sources_ne" => {
                    let want: Vec<String> = v.as_array().unwrap().iter().map(|x| x.as_str().unwrap().to_string()).collect();
                    match trailer_map(&content) {
                        Some(m) => m.sources().map(|s| s.to_string()).collect::<Vec<_>>() != want,
                        None => true,
                    }
                }
                // {"gen": "text in output", "gen_nth": 0, "orig": "text in the ORIGINAL source", "orig_nth": 0, "source": "name"(optional)}
                // holds (= violation) when the generated position does NOT resolve to the original position
                "not_mapped_to" => {
                    let o = v.as_object().unwrap();
                    let gen = o["gen"].as_str().unwrap();
                    let gen_nth = o.get("gen_nth").and_then(|x| x.as_u64()).unwrap_or(0) as usize;
                    let orig_text = o.get("orig_source_text").and_then(|x| x.as_str()).unwrap_or(&w.source);
                    let orig = o["orig"].as_str().unwrap();
                    let orig_nth = o.get("orig_nth").and_then(|x| x.as_u64()).unwrap_or(0) as usize;
                    match (trailer_map(&content), pos_of(&content, gen, gen_nth), pos_of(orig_text, orig, orig_nth)) {
                        (Some(m), Some((gl, gc)), Some((ol, oc))) => match m.lookup_token(gl, gc) {
                            Some(t) => {
                                let src_ok = match o.get("source").and_then(|x| x.as_str()) { Some(sn) => t.get_source() == Some(sn), None => true };
                                let exact = t.get_dst_line() == gl && t.get_dst_col() == gc;
                                println!("--- lookup gen {gl}:{gc} -> {}:{} (src {:?}) want {ol}:{oc}", t.get_src_line(), t.get_src_col(), t.get_source());
                                !(exact && t.get_src_line() == ol && t.get_src_col() == oc && src_ok)
                            }
                            None => true,
                        },
                        _ => true,
                    }
                }
                // {"gen": "text in output", "gen_nth": 0, "from_line": a, "to_line": b}: holds (= violation) when the generated
                // position resolves to an input line outside [a, b] (0-based), or to nothing
                "mapped_outside_lines" => {
                    let o = v.as_object().unwrap();
                    let gen = o["gen"].as_str().unwrap();
                    let gen_nth = o.get("gen_nth").and_then(|x| x.as_u64()).unwrap_or(0) as usize;
                    let (a, b) = (o["from_line"].as_u64().unwrap() as u32, o["to_line"].as_u64().unwrap() as u32);
                    match (trailer_map(&content), pos_of(&content, gen, gen_nth)) {
                        (Some(m), Some((gl, gc))) => match m.lookup_token(gl, gc) {
                            Some(t) => {
                                println!("--- lookup gen {gl}:{gc} -> {}:{} want a line in {a}..={b}", t.get_src_line(), t.get_src_col());
                                !(t.has_source() && t.get_src_line() >= a && t.get_src_line() <= b)
                            }
                            None => true,
                        },
                        (Some(_), None) => false,   // the text is not in the output: nothing to judge
                        _ => true,
                    }
                }
                // {"gen_line_contains": "text", "from_line": a, "to_line": b}: holds (= violation) when some map entry on a generated
                // line that contains the text resolves to an input line outside [a, b] (0-based)
                "line_tokens_mapped_outside_lines" => {
                    let o = v.as_object().unwrap();
                    let txt = o["gen_line_contains"].as_str().unwrap();
                    let (a, b) = (o["from_line"].as_u64().unwrap() as u32, o["to_line"].as_u64().unwrap() as u32);
                    let mut bad = None;
                    if let Some(m) = trailer_map(&content) {
                        let body_end = content.rfind("//# sourceMappingURL=").unwrap_or(content.len());
                        for (li, line) in content[..body_end].split('\n').enumerate() {
                            if !line.contains(txt) { continue; }
                            for t in m.tokens() {
                                if t.get_dst_line() == li as u32 && t.has_source() && (t.get_src_line() < a || t.get_src_line() > b) && bad.is_none() {
                                    bad = Some(format!("generated {}:{} -> {}:{}", li, t.get_dst_col(), t.get_src_line(), t.get_src_col()));
                                }
                            }
                        }
                    } else { bad = Some("no map".to_string()); }
                    println!("--- entry of the line(s) containing {:?} mapped outside {a}..={b}: {:?}", txt, bad);
                    bad.is_some()
                }
                "code_count_ne" => {
                    let a = v.as_array().unwrap();
                    code.matches(a[0].as_str().unwrap()).count() as i64 != a[1].as_i64().unwrap()
                }
                "code_before" => {
                    // ["a","b"]: text a occurs before text b in the code
                    let a = v.as_array().unwrap();
                    match (code.find(a[0].as_str().unwrap()), code.find(a[1].as_str().unwrap())) {
                        (Some(x), Some(y)) => x < y,
                        _ => false,
                    }
                }
                other => panic!("unknown condition {other}"),
            };
            println!("--- condition {k}={v} holds={holds}");
            all &= holds;
        }
    }
    all
    };
    let no_conds: Vec<serde_json::Value> = Vec::new();
    let mut all = eval_conds(if only_panics || generic_prop.is_some() { &no_conds } else { &w.violated_when });
    if only_panics {
        println!("--- only-panics mode: panicked={panicked}");
        all = panicked;
    }
    if let Some(prop) = &generic_prop {
        // each oracle: a conjunction of conditions that describes a violation whatever the program is
        let j = |t: &str| -> Vec<serde_json::Value> { serde_json::from_str(t).expect("oracle json") };
        let ok_run = r#"{"errors":false},{"panics":false}"#;
        let oracles: Vec<(&str, Vec<serde_json::Value>)> = match prop.as_str() {
            // (the per-tag breakdown exists in debug verbosity only)
            "C15" if variant == "information" => vec![("hooks_ne_metric", j(&format!("[{ok_run},{{\"hooks_ne_metric\":true}}]")))],
            "C15" => vec![("hooks_ne_metric", j(&format!("[{ok_run},{{\"hooks_ne_metric\":true}}]"))), ("debug_sum_ne_metric", j(&format!("[{ok_run},{{\"debug_sum_ne_metric\":true}}]")))],
            "C12" => vec![("modified_without_hook", j(&format!("[{ok_run},{{\"status_is\":\"modified\"}},{{\"hooks_eq\":0}}]"))), ("modified_without_valid_map", j(&format!("[{ok_run},{{\"status_is\":\"modified\"}},{{\"map_invalid\":true}}]"))),
                          ("hook_without_modified", j(&format!("[{ok_run},{{\"status_is\":\"notmodified\"}},{{\"hooks_ne\":0}}]"))),
                          ("result_without_status", j(&format!("[{ok_run},{{\"status_is\":\"\"}}]"))),
                          ("result_with_other_status", j(&format!("[{ok_run},{{\"status_is_not\":\"\"}},{{\"status_is_not\":\"modified\"}},{{\"status_is_not\":\"notmodified\"}}]"))),
                          ("not_modified_carries_code", j(&format!("[{ok_run},{{\"status_is\":\"notmodified\"}},{{\"code_is_empty\":false}}]"))),
                          ("modified_without_prologue_definitions", j(&format!("[{ok_run},{{\"status_is\":\"modified\"}},{{\"prologue_expected\":true}},{{\"hook_missing_in_prologue\":true}}]")))],
            "C05" => vec![("unconfigured_hook_referenced", j(&format!("[{ok_run},{{\"unconfigured_hook_referenced\":true}}]"))),
                          ("hook_missing_in_prologue", j(&format!("[{ok_run},{{\"status_is\":\"modified\"}},{{\"prologue_expected\":true}},{{\"hook_missing_in_prologue\":true}}]"))),
                          ("configured_hook_missing_in_prologue", j(&format!("[{ok_run},{{\"status_is\":\"modified\"}},{{\"prologue_expected\":true}},{{\"configured_hook_missing_in_prologue\":true}}]")))],
            "C09" => vec![("map_points_outside_input", j(&format!("[{ok_run},{{\"status_is\":\"modified\"}},{{\"map_points_outside_input\":true}}]"))),
                          // (the "hook call inside its statement" oracle approximates statement extents by neighbouring generated
                          //  lines: good enough for the hand-checked programs that name it, too coarse for arbitrary layouts)
                          ("copied_identifier_mismapped", j(&format!("[{ok_run},{{\"status_is\":\"modified\"}},{{\"copied_identifier_mismapped\":true}}]")))],
            "C10" => vec![("trailer_count", j(&format!("[{ok_run},{{\"status_is\":\"modified\"}},{{\"map_invalid\":true}}]")))],
            "C14" => vec![("literals_changed_by_instrumentation", j(&format!("[{ok_run},{{\"literals_changed_by_instrumentation\":true}}]"))), ("literal_not_at_reported_position", j(&format!("[{ok_run},{{\"literal_not_at_reported_position\":true}}]")))],
            "C13" => vec![("panics", j(r#"[{"panics":true}]"#))],
            // execution equivalence / hook arguments: for programs that come with a driver expression
            "C02" | "C03" | "C06" => {
                let mut v = vec![];
                let mut driver: Option<String> = None;
                for c in &w.violated_when {
                    if let Some(o) = c.as_object() {
                        for k in ["exec_differs", "hook_args_wrong"] {
                            if let Some(d) = o.get(k).and_then(|x| x.as_str()) { driver = Some(d.to_string()); }
                        }
                    }
                }
                if let Some(d) = driver {
                    v.push(("exec_differs", vec![serde_json::json!({"exec_differs": d})]));
                    if prop == "C03" { v.push(("hook_args_wrong", vec![serde_json::json!({"hook_args_wrong": d})])); }
                }
                v
            }
            other => panic!("no generic oracles for {other}"),
        };
        all = false;
        for (name, conds) in &oracles {
            if eval_conds(conds) {
                println!("GENERIC-FAIL {name}");
                all = true;
            }
        }
    }
    for d in &real_dirs { let _ = std::env::set_current_dir(std::env::temp_dir()); let _ = std::fs::remove_dir_all(d); }
    println!("{}", if all { "REPRODUCED" } else { "NOT-REPRODUCED" });
}

// Execution oracle for witnesses (node): runs the ORIGINAL source and the REWRITTEN code with pass-through hooks in fresh vm
// contexts, calls the driver expression in both, and compares what is observable: the returned value (JSON), the thrown error
// class, and the sequence of __log(..) calls the program makes.  With `mode = "hooks"` it checks instead that every hook call
// received the true result and operands: plusOperator(res, a, b): res === a + b; string-method hooks (res, fn, recv, ...args):
// res === fn.apply(recv, args); tplOperator(res, ...subs): the substitutions occur in res in order.
// argv: mode original_source_file rewritten_code_file driver
const vm = require('vm');
const fs = require('fs');
const [mode, origFile, rewFile, driver] = process.argv.slice(2);
function show(v) { try { return JSON.stringify(v, (k, x) => (typeof x === 'function' ? 'fn' : typeof x === 'bigint' ? String(x) : x)); } catch (e) { return String(v); } }
async function run(code, withHooks) {
  const log = [];
  const bad = [];
  const ctx = { __log: (x) => { log.push(String(x)); return x; }, setTimeout, Promise };
  if (withHooks) {
    ctx._ddiast = new Proxy({}, { get: (_t, name) => (res, ...rest) => {
      if (mode !== 'hooks') return res;   // plain pass-through: recomputing would re-run user code (valueOf, custom methods)
      if (name === 'plusOperator') {
        if (rest.length !== 2 || !Object.is(res, rest[0] + rest[1])) bad.push(name + ' ' + show([res].concat(rest)));
      } else if (name === 'tplOperator') {
        let pos = 0; const s = String(res);
        for (const sub of rest) { const i = s.indexOf(String(sub), pos); if (i < 0) { bad.push(name + ' ' + show([res].concat(rest))); break; } pos = i + String(sub).length; }
      } else if (typeof rest[0] === 'function') {
        let want; try { want = rest[0].apply(rest[1], rest.slice(2)); } catch (e) { want = undefined; }
        if (!Object.is(res, want) && show(res) !== show(want)) bad.push(String(name) + ' ' + show([res].concat(rest.slice(1))));
      } else { bad.push(String(name) + ' called without the function: ' + show([res].concat(rest))); }
      return res;
    } });
  }
  vm.createContext(ctx);
  let out;
  try {
    vm.runInContext(code, ctx, { timeout: 8000 });
    let v = vm.runInContext(driver, ctx, { timeout: 8000 });
    if (v && typeof v.then === 'function') {
      // a promise: settle it (bounded) and let pending microtasks / timers of the program run
      log.push('<promise returned>');
      v = await Promise.race([v, new Promise((_, rej) => setTimeout(() => rej(Object.assign(new Error('oracle timeout'), { code: 'ERR_SCRIPT_EXECUTION_TIMEOUT' })), 6000))]);
      await new Promise((res) => setTimeout(res, 20));
    }
    out = 'ok ' + show(v);
  } catch (e) { out = (e && e.code === 'ERR_SCRIPT_EXECUTION_TIMEOUT') ? 'TIMEOUT' : 'throw ' + (e && e.constructor ? e.constructor.name : typeof e); }
  // names the program left on the global object (an undeclared injected temporary shows up here: node's vm accepts the
  // assignment even in strict mode)
  const globals = Object.keys(ctx).filter((k) => !['__log', '_ddiast', 'setTimeout', 'Promise'].includes(k)).sort();
  return { out, log, bad, globals };
}
// mode "prologue": the rewritten code (which starts with the file prologue) is run (1) in a context where the tracer has already
// installed its hook object: that very object must still be installed afterwards and its hooks must have been called;
// (2) in a context without any hook object: the code must run with the prologue's pass-throughs and give the original result.
async function prologueCheck() {
  const code = fs.readFileSync(rewFile, 'utf8');
  const problems = [];
  let calls = 0;
  const installed = new Proxy({}, { get: (_t, name) => (res) => { calls++; return res; } });
  const ctx1 = { __log: (x) => x, _ddiast: installed, setTimeout, Promise };
  vm.createContext(ctx1);
  let out1;
  try { vm.runInContext(code, ctx1, { timeout: 8000 }); out1 = 'ok ' + show(vm.runInContext(driver, ctx1, { timeout: 8000 })); } catch (e) { out1 = (e && e.code === 'ERR_SCRIPT_EXECUTION_TIMEOUT') ? 'TIMEOUT' : 'throw ' + (e && e.constructor ? e.constructor.name : typeof e); }
  if (ctx1._ddiast !== installed) problems.push('installed hook object was replaced');
  if (calls === 0) problems.push('installed hooks were never called');
  const ctx2 = { __log: (x) => x, setTimeout, Promise };
  vm.createContext(ctx2);
  let out2;
  try { vm.runInContext(code, ctx2, { timeout: 8000 }); out2 = 'ok ' + show(vm.runInContext(driver, ctx2, { timeout: 8000 })); } catch (e) { out2 = (e && e.code === 'ERR_SCRIPT_EXECUTION_TIMEOUT') ? 'TIMEOUT' : 'throw ' + (e && e.constructor ? e.constructor.name : typeof e) + ' ' + (e && e.message); }
  // (3) a module-like scope with a binding of its own called `_ddiast` (the typeof guard of the prologue is true there although the
  // tracer's object is installed globally): the installed global object must survive
  let calls3 = 0;
  const installed3 = new Proxy({}, { get: (_t, name) => (res) => { calls3++; return res; } });
  const ctx3 = { __log: (x) => x, _ddiast: installed3, setTimeout, Promise };
  vm.createContext(ctx3);
  try { vm.runInContext('(function () { var _ddiast; try {\n' + code + '\n} catch (e) {} })()', ctx3, { timeout: 8000 }); } catch (e) { /* a syntax error of the wrapper (import/export) decides nothing */ }
  if (ctx3._ddiast !== installed3) problems.push('installed hook object was replaced from a scope that shadows the name');
  const o = await run(fs.readFileSync(origFile, 'utf8'), false);
  if (out1 === 'TIMEOUT' || out2 === 'TIMEOUT' || o.out === 'TIMEOUT') { console.log('PROLOGUE-UNDECIDED time limit of the oracle reached'); return; }
  if (out2 !== o.out) problems.push('without a tracer: ' + out2 + ' instead of ' + o.out);
  if (out1 !== o.out) problems.push('with a tracer: ' + out1 + ' instead of ' + o.out);
  console.log(problems.length ? 'PROLOGUE-WRONG ' + problems.join(' | ') : 'PROLOGUE-OK ' + out2);
}
(async () => {
if (mode === 'prologue') { await prologueCheck(); return; }
const o = await run(fs.readFileSync(origFile, 'utf8'), false);
const r = await run(fs.readFileSync(rewFile, 'utf8'), true);
if (mode === 'hooks') {
  console.log(r.bad.length ? 'HOOK-ARGS-WRONG ' + r.bad.join(' | ') : 'HOOK-ARGS-OK');
} else {
  // a run that hit the oracle's own time limit (machine under load) decides nothing
  if (o.out === 'TIMEOUT' || r.out === 'TIMEOUT') { console.log('EXEC-UNDECIDED time limit of the oracle reached'); return; }
  const sameGlobals = show(o.globals) === show(r.globals);
  const same = o.out === r.out && show(o.log) === show(r.log) && sameGlobals;
  console.log((same ? 'EXEC-SAME ' : 'EXEC-DIFFERS ') + 'original: ' + o.out + ' log=' + show(o.log) + ' rewritten: ' + r.out + ' log=' + show(r.log) + (sameGlobals ? '' : ' globals: ' + show(o.globals) + ' vs ' + show(r.globals)));
}
})();
